(* ReaderFacts.v — C08: the reader's error contract.
   For every byte string, every json oracle and every read-ahead block size > 0 the streaming reader of Reader.v
   terminates (the fuel of the model is never exhausted), ends either normally or with a DiffXParseError whose line
   number lies inside the input, and never lets another exception type escape; the two model artefacts EUnmodelled
   (a codec CPython knows and the model does not execute) and EOracleMiss (no json.loads answer recorded) excepted.
   The DOM loader on top of it (Dom.dom_read) fails only with errors of the library's own family.

   C08_message: the model carries no message strings. DiffXParseError.__init__ derives the message prefix
   ("Error on line N[, column M]: ...") from its linenum/column arguments alone (linenum + 1, column + 1), so agreement
   of message and attributes is a property of that constructor, not of the reader; it is checked by the harness
   oracle on every fuzz case (family `fuzz`), and there is no theorem about it here. *)
From Coq Require Import List Arith NArith ZArith Bool Strings.Byte Lia ZifyBool.
From Coq Require Strings.String.
From DX Require Import Bytes Res Codec Text Sections Header Stream Json Reader StreamFacts Writer Dom.
From DX Require TextFacts ReaderSpecFacts.
From DXGen Require GenSections GenText GenCodecs.
Import ListNotations.
Import String.StringSyntax.
Local Open Scope string_scope.
Local Open Scope list_scope.

(* ------------------------------------------------------------------------------------------------ *)
(* equality tests                                                                                    *)

Lemma beq_true : forall a b : bytes, beq a b = true -> a = b.
Proof.
  unfold beq. induction a as [|x a IH]; intros [|y b] H; cbn in H; try discriminate; [reflexivity|].
  apply andb_true_iff in H. destruct H as [H1 H2]. apply Byte.byte_dec_bl in H1. subst. f_equal. auto.
Qed.

Lemma mem_beq_in : forall (x : bytes) l, mem beq x l = true -> In x l.
Proof.
  induction l as [|y t IH]; cbn [mem]; intros H; [discriminate|].
  apply orb_true_iff in H. destruct H as [H|H]; [left; symmetry; apply beq_true; exact H|right; auto].
Qed.

Lemma assoc_get_in {V} : forall (k : bytes) (d : list (bytes * V)) v, assoc_get beq k d = Some v -> In (k, v) d.
Proof.
  induction d as [|[k' v'] d IH]; intros v H; cbn [assoc_get] in H; [discriminate|].
  destruct (beq k k') eqn:E.
  - apply beq_true in E. inversion H; subst. left; reflexivity.
  - right; auto.
Qed.

(* ------------------------------------------------------------------------------------------------ *)
(* split_lines: how many lines                                                                       *)

Section SplitBound.
  Context {A : Type} (eqb : A -> A -> bool).

  Lemma split_aux_len : forall sep l cur skip,
    List.length (split_aux eqb sep cur l skip) <= List.length l - skip + 1.
  Proof.
    intros sep. induction l as [|x t IH]; intros cur skip; cbn [split_aux List.length].
    - lia.
    - destruct skip as [|k].
      + destruct (prefixb eqb sep (x :: t)) eqn:P.
        * cbn [List.length]. specialize (IH [] (List.length sep - 1)). lia.
        * specialize (IH (x :: cur) 0). lia.
      + specialize (IH cur k). lia.
  Qed.

  Lemma prefixb_len : forall p l, prefixb eqb p l = true -> List.length p <= List.length l.
  Proof.
    induction p as [|a p IH]; intros [|b l] H; cbn [prefixb List.length] in *; try lia; try discriminate.
    apply andb_true_iff in H. destruct H as [_ H]. apply IH in H. lia.
  Qed.

  Lemma prefixb_app : forall p l r, prefixb eqb p l = true -> prefixb eqb p (l ++ r) = true.
  Proof.
    induction p as [|a p IH]; intros [|b l] r H; cbn [prefixb app] in *; try reflexivity; try discriminate.
    apply andb_true_iff in H. destruct H as [H1 H2]. rewrite H1. cbn. apply IH; exact H2.
  Qed.

  Lemma suffixb_cons : forall s l x, suffixb eqb s l = true -> suffixb eqb s (x :: l) = true.
  Proof.
    intros s l x H. unfold suffixb, frev in *. cbn [rev_append].
    rewrite (rev_append_rev l [x]). rewrite (rev_append_rev l []), app_nil_r in H. apply prefixb_app; exact H.
  Qed.

  (* as many pieces as elements + 1 only if the data ends with a separator *)
  Lemma split_aux_full : forall sep l cur, sep <> [] -> l <> [] ->
    List.length (split_aux eqb sep cur l 0) = List.length l + 1 -> suffixb eqb sep l = true.
  Proof.
    intros sep. induction l as [|x t IH]; intros cur Hs Hl H; [congruence|].
    cbn [split_aux List.length] in H.
    destruct (prefixb eqb sep (x :: t)) eqn:P.
    - cbn [List.length] in H.
      pose proof (split_aux_len sep t [] (List.length sep - 1)) as B.
      pose proof (prefixb_len _ _ P) as C. cbn [List.length] in C.
      assert (List.length sep = 1) as L1 by (destruct sep; [congruence|cbn [List.length] in *; lia]).
      rewrite L1 in H. cbn [Nat.sub] in H.
      destruct t as [|y t'].
      + destruct sep as [|c [|? ?]]; cbn [List.length] in L1; try lia.
        unfold suffixb, frev. cbn [rev_append]. exact P.
      + apply suffixb_cons. apply (IH []); [exact Hs|discriminate|lia].
    - pose proof (split_aux_len sep t (x :: cur) 0) as B. lia.
  Qed.

  Lemma removelast_len : forall (l : list (list A)), List.length (removelast l) = List.length l - 1.
  Proof.
    induction l as [|x t IH]; [reflexivity|]. cbn [removelast]. destruct t as [|y t']; [reflexivity|].
    cbn [List.length] in *. lia.
  Qed.

  Lemma cut_last_g_len : forall n (l : list (list A)), List.length (cut_last_g n l) = List.length l.
  Proof.
    induction l as [|x t IH]; [reflexivity|]. cbn [cut_last_g]. destruct t as [|y t']; [reflexivity|].
    cbn [List.length] in *. lia.
  Qed.

  Lemma split_lines_g_len : forall d nl ls,
    split_lines_g eqb d nl true = Ok ls -> List.length ls <= List.length d.
  Proof.
    intros d nl ls H. unfold split_lines_g in H.
    destruct d as [|d0 d']; [discriminate|]. destruct nl as [|n0 nl']; [discriminate|].
    cbn [is_nil] in H.
    set (d := d0 :: d') in *. set (nl := n0 :: nl') in *.
    pose proof (split_aux_len nl d [] 0) as B. fold (split eqb nl d) in B.
    destruct (suffixb eqb nl d) eqn:S; inversion H; subst ls; clear H.
    - rewrite removelast_len, map_length. lia.
    - rewrite cut_last_g_len, map_length.
      destruct (Nat.eq_dec (List.length (split eqb nl d)) (List.length d + 1)) as [E|E]; [|lia].
      apply split_aux_full in E; [congruence|discriminate|discriminate].
  Qed.

  Lemma split_lines_g_ok : forall d nl k, d <> [] -> nl <> [] -> exists ls, split_lines_g eqb d nl k = Ok ls.
  Proof.
    intros d nl k Hd Hn. unfold split_lines_g.
    destruct d; [congruence|]. destruct nl; [congruence|]. cbn [is_nil].
    destruct (suffixb _ _ _); [eauto|]. destruct k; eauto.
  Qed.
End SplitBound.

Lemma split_lines_len : forall d nl ls, split_lines d nl true = Ok ls -> List.length ls <= List.length d.
Proof. intros d nl ls. apply split_lines_g_len. Qed.

Lemma split_lines_ok : forall d nl k, d <> [] -> nl <> [] -> exists ls, split_lines d nl k = Ok ls.
Proof. intros d nl k. apply split_lines_g_ok. Qed.

(* ------------------------------------------------------------------------------------------------ *)
(* codecs: which errors, and the newline of a section is never empty                                 *)

(* an error that _read_content's try: blocks turn into DiffXParseError, or the model artefact *)
Definition err_ok (e : exn) : Prop := caught_as_parse e = true \/ e = EUnmodelled.

Lemma py_encode_err : forall t enc e, py_encode t enc = Err e -> err_ok e.
Proof.
  intros t enc e H. unfold py_encode in H. unfold err_ok.
  destruct (lookup_codec enc); [destruct (c_enc c t)|..]; inversion H; subst; cbn; auto.
Qed.

Lemma py_decode_err : forall b enc e, py_decode b enc = Err e -> err_ok e.
Proof.
  intros b enc e H. unfold py_decode in H. unfold err_ok.
  destruct (is_nil b); [discriminate|].
  destruct (lookup_codec enc); [destruct (c_dec c b)|..]; inversion H; subst; cbn; auto.
Qed.

Lemma get_newline_err : forall le enc e, get_newline_for_type le enc = Err e -> err_ok e.
Proof.
  intros le enc e H. unfold get_newline_for_type in H.
  destruct (assoc_get beq le GenText.newline_formats); [|inversion H; subst; left; reflexivity].
  destruct (py_encode l (enc_or_ascii enc)) eqn:E; cbn [bind] in H; [discriminate|].
  inversion H; subst. eapply py_encode_err; eauto.
Qed.

Definition gn_nonempty (le : bytes) (enc : option bytes) : bool :=
  match get_newline_for_type le enc with Ok nl => nonempty nl | Err _ => true end.

(* every line-endings name x every spelling of the catalogue (and no encoding): a table fact, by computation *)
Lemma gn_nonempty_all :
  forallb (fun le => gn_nonempty le None &&
                     forallb (fun r => gn_nonempty le (Some (GenCodecs.cr_spelling r))) GenCodecs.rows)
          (map fst GenText.newline_formats) = true.
Proof. vm_compute. reflexivity. Qed.

Lemma find_row_in : forall s rows r, find_row s rows = Some r -> In r rows /\ s = GenCodecs.cr_spelling r.
Proof.
  intros s rows r. induction rows as [|r0 rows IH]; cbn [find_row]; [discriminate|].
  destruct (beq s (GenCodecs.cr_spelling r0)) eqn:E.
  - intros H. inversion H; subst. split; [left; reflexivity|apply beq_true; exact E].
  - intros H. destruct (IH H). split; [right; assumption|assumption].
Qed.

Lemma get_newline_nonempty : forall le enc nl, get_newline_for_type le enc = Ok nl -> nl <> [].
Proof.
  intros le enc nl H.
  assert (gn_nonempty le enc = true) as Hok.
  { pose proof gn_nonempty_all as Hall. rewrite forallb_forall in Hall.
    destruct (assoc_get beq le GenText.newline_formats) as [t|] eqn:Ele.
    2:{ unfold get_newline_for_type in H. rewrite Ele in H. discriminate H. }
    apply assoc_get_in in Ele. apply (in_map fst) in Ele. cbn [fst] in Ele.
    specialize (Hall le Ele). apply andb_true_iff in Hall. destruct Hall as [Hnone Hrows].
    destruct enc as [e|]; [|exact Hnone].
    destruct (find_row e GenCodecs.rows) as [r|] eqn:F.
    - apply find_row_in in F. destruct F as [Hin ->]. rewrite forallb_forall in Hrows. exact (Hrows r Hin).
    - unfold get_newline_for_type, enc_or_ascii, py_encode, lookup_codec in H.
      destruct (assoc_get beq le GenText.newline_formats); [|discriminate].
      rewrite F in H. discriminate H. }
  unfold gn_nonempty in Hok. rewrite H in Hok. intros ->. discriminate.
Qed.

Lemma get_newline_known : forall le enc, In le [GenText.le_unix; GenText.le_dos] ->
  get_newline_for_type le enc =
  bind (py_encode (nl_text le) (enc_or_ascii enc)) (fun b => Ok (strip_bom b (Some (enc_or_ascii enc)))).
Proof.
  intros le enc H. unfold get_newline_for_type, nl_text.
  destruct (assoc_get beq le GenText.newline_formats) eqn:E; [reflexivity|].
  destruct H as [<-|[<-|[]]]; vm_compute in E; discriminate.
Qed.

Lemma guess_spec : forall data enc,
  match guess_line_endings_bytes data enc with
  | Ok p => snd p <> []
  | Err e => err_ok e
  end.
Proof.
  intros data enc. unfold guess_line_endings_bytes.
  pose proof (get_newline_known GenText.le_unix enc (or_introl eq_refl)) as Gu.
  pose proof (get_newline_known GenText.le_dos enc (or_intror (or_introl eq_refl))) as Gd.
  destruct (py_encode (nl_text GenText.le_unix) (enc_or_ascii enc)) as [u0|e] eqn:Eu; cbn [bind] in *;
    [|eapply py_encode_err; eauto].
  destruct (py_encode (nl_text GenText.le_dos) (enc_or_ascii enc)) as [d0|e] eqn:Ed; cbn [bind] in *;
    [|eapply py_encode_err; eauto].
  apply get_newline_nonempty in Gu. apply get_newline_nonempty in Gd.
  destruct (bfind _ data); [destruct (bends _ _)|]; cbn [snd]; assumption.
Qed.

(* the newline computation of _read_content *)
Definition nl_res_of (line_endings : option pv) (enc : option bytes) (content : bytes) : res bytes :=
  if pv_given line_endings then
    match line_endings with
    | Some (VStr le) => get_newline_for_type le enc
    | _ => Err EValue
    end
  else do p <- guess_line_endings_bytes content enc; Ok (snd p).

Lemma nl_res_spec : forall le enc content,
  match nl_res_of le enc content with
  | Ok nl => nl <> []
  | Err e => err_ok e
  end.
Proof.
  intros le enc content. unfold nl_res_of.
  destruct (pv_given le).
  - destruct le as [[z|s]|]; try (left; reflexivity).
    destruct (get_newline_for_type s enc) eqn:E; [eapply get_newline_nonempty|eapply get_newline_err]; eauto.
  - pose proof (guess_spec content enc) as G.
    destruct (guess_line_endings_bytes content enc); cbn [bind]; exact G.
Qed.

(* ------------------------------------------------------------------------------------------------ *)
(* _read_content                                                                                     *)

Definition pos (st : rstate) : nat := s_pos (st_stream st).
Definition sdata (st : rstate) : bytes := s_data (st_stream st).

Definition content_post (st : rstate) (r : content_result) : Prop :=
  match r with
  | COk p st' =>
      p <> PNone /\ sdata st' = sdata st /\ (wf_rstate st -> wf_rstate st') /\ pos st <= pos st' /\
      (st_linenum st <= st_linenum st')%Z /\
      (st_linenum st' - st_linenum st <= Z.of_nat (pos st' - pos st))%Z
  | CParse l => l = st_linenum st \/ l = (st_linenum st - 1)%Z
  | CExc e => e = EUnmodelled
  end.

Lemma err_ok_dispatch : forall st e,
  err_ok e -> content_post st (if caught_as_parse e then CParse (st_linenum st) else CExc e).
Proof.
  intros st e [H|H].
  - rewrite H. left; reflexivity.
  - subst e. cbn. reflexivity.
Qed.

Lemma read_content_spec : forall st len enc ind le keep,
  content_post st (read_content st len enc ind le keep).
Proof.
  intros st len enc ind le keep. unfold read_content. cbv zeta.
  match goal with
  | |- context [sread ?n ?s] =>
      pose proof (sread_wf n s) as Hwf; pose proof (sread_pos n s) as Hpos;
      pose proof (sread_data n s) as Hdat; destruct (sread n s) as [content s1]
  end.
  cbn [fst snd] in *.
  destruct content as [|c0 content']; cbn [is_nil]; [right; reflexivity|].
  set (content := c0 :: content') in *.
  assert (content <> []) as Hne by discriminate.
  assert (forall (p : payload) (b : bool) (lines : list bytes),
            p <> PNone -> List.length lines <= List.length content ->
            content_post st (if b then COk p {| st_stream := s1;
                                               st_linenum := (st_linenum st + Z.of_nat (List.length lines))%Z;
                                               st_fnl := st_fnl st |}
                             else CParse (st_linenum st))) as Hfin.
  { intros p b lines Hp Hl. destruct b; [|left; reflexivity].
    unfold content_post, pos, sdata, wf_rstate. cbn [st_stream st_linenum].
    rewrite Hpos, Hdat. repeat split; auto; lia. }
  assert (forall e : option bytes,
    content_post st
     (if match ind with None => false | Some (VInt z) => (z <? 0)%Z | Some (VStr _) => true end
      then CParse (st_linenum st - 1)%Z
      else match nl_res_of le e content with
           | Ok newline =>
               match split_lines content newline true with
               | Ok lines =>
                   if negb (bends newline content) then CParse (st_linenum st) else
                   match e, keep with
                   | Some e0, false =>
                       match py_decode (match ind with
                                        | Some (VInt z) =>
                                            if (0 <? z)%Z
                                            then concat (map (strip_spaces (Z.to_nat (Z.min z (Z.of_nat (List.length content))))) lines)
                                            else content
                                        | _ => content
                                        end) e0 with
                       | Ok t =>
                           match py_decode newline e0 with
                           | Ok nlt =>
                               if suffixb N.eqb nlt t
                               then COk (PText t) {| st_stream := s1;
                                                     st_linenum := (st_linenum st + Z.of_nat (List.length lines))%Z;
                                                     st_fnl := st_fnl st |}
                               else CParse (st_linenum st)
                           | Err ex => if caught_as_parse ex then CParse (st_linenum st) else CExc ex
                           end
                       | Err ex => if caught_as_parse ex then CParse (st_linenum st) else CExc ex
                       end
                   | _, _ =>
                       if bends newline (match ind with
                                         | Some (VInt z) =>
                                             if (0 <? z)%Z
                                             then concat (map (strip_spaces (Z.to_nat (Z.min z (Z.of_nat (List.length content))))) lines)
                                             else content
                                         | _ => content
                                         end)
                       then COk (PBytes (match ind with
                                         | Some (VInt z) =>
                                             if (0 <? z)%Z
                                             then concat (map (strip_spaces (Z.to_nat (Z.min z (Z.of_nat (List.length content))))) lines)
                                             else content
                                         | _ => content
                                         end))
                                {| st_stream := s1;
                                   st_linenum := (st_linenum st + Z.of_nat (List.length lines))%Z;
                                   st_fnl := st_fnl st |}
                       else CParse (st_linenum st)
                   end
               | Err e1 => CExc e1
               end
           | Err e1 => if caught_as_parse e1 then CParse (st_linenum st) else CExc e1
           end)) as Hbody.
  { intros e.
    destruct (match ind with None => false | Some (VInt z) => (z <? 0)%Z | Some (VStr _) => true end);
      [right; reflexivity|].
    pose proof (nl_res_spec le e content) as Hnl.
    destruct (nl_res_of le e content) as [newline|e1]; [|apply err_ok_dispatch; exact Hnl].
    destruct (split_lines_ok content newline true Hne Hnl) as [lines Hsl]. rewrite Hsl.
    pose proof (split_lines_len _ _ _ Hsl) as Hlen.
    destruct (negb (bends newline content)); [left; reflexivity|].
    set (content1 := match ind with Some (VInt z) => _ | _ => content end).
    destruct e as [e0|]; [destruct keep|]; try (apply Hfin; [discriminate|exact Hlen]).
    destruct (py_decode content1 e0) as [t|ex] eqn:D1; [|apply err_ok_dispatch; eapply py_decode_err; eauto].
    destruct (py_decode newline e0) as [nlt|ex] eqn:D2; [|apply err_ok_dispatch; eapply py_decode_err; eauto].
    apply Hfin; [discriminate|exact Hlen]. }
  destruct enc as [[z|s]|]; [right; reflexivity|exact (Hbody (Some s))|exact (Hbody None)].
Qed.

(* ------------------------------------------------------------------------------------------------ *)
(* _read_header: the blank-line loop has enough fuel, never raises, and a header consumes >= 1 byte   *)

Lemma next_nonblank_spec : forall fuel chunk s,
  0 < chunk -> List.length (remaining s) < fuel ->
  exists o s', next_nonblank fuel chunk s = Ok (o, s') /\
    s_data s' = s_data s /\ (wf_stream s -> wf_stream s') /\
    match o with
    | Some line => s_pos s + List.length line <= s_pos s' /\ exists l, line = l ++ [lf]
    | None => s_pos s <= s_pos s'
    end.
Proof.
  induction fuel as [|f IH]; intros chunk s Hc Hf; [lia|].
  cbn [next_nonblank]. rewrite read_until_abs_correct by assumption. cbn [bind].
  destruct (read_until_abs s) as [[line eof] s1] eqn:E.
  destruct (read_until_abs_exact _ _ _ _ E) as (A & B & C & D & W).
  destruct (read_until_abs_shape _ _ _ _ E) as [Sh _].
  destruct eof.
  - exists None, s1. repeat split; auto; lia.
  - destruct (Sh eq_refl) as [l [Hl _]].
    destruct (nonempty (strip line)).
    + exists (Some line), s1. repeat split; auto; [lia|eauto].
    + assert (List.length (remaining s1) < f) as Hf1.
      { rewrite D, Hl, !app_length in Hf. cbn [List.length] in Hf. lia. }
      destruct (IH chunk s1 Hc Hf1) as (o & s' & R & A' & W' & P').
      exists o, s'. repeat split; auto; [congruence|].
      destruct o as [line'|]; [destruct P' as [P1 P2]; split; [lia|exact P2]|lia].
Qed.

Lemma match_name_in : forall names l n tl, match_name names l = Some (n, tl) -> In n names.
Proof.
  induction names as [|x names IH]; intros l n tl H; cbn [match_name] in H; [discriminate|].
  destruct (bstarts _ l); [inversion H; left; reflexivity|right; eauto].
Qed.

Lemma match_header_re_name : forall h dots name ostr,
  match_header_re h = Some (dots, name, ostr) -> In name header_names.
Proof.
  intros h dots name ostr H. unfold match_header_re in H.
  destruct h as [|c r]; [discriminate|]. destruct (byte_eqb c "#"); [|discriminate].
  destruct (take_dots r) as [d rest]. destruct (d <=? 3); [|discriminate].
  destruct (match_name header_names rest) as [[n tl]|] eqn:Hm; [|discriminate].
  apply match_name_in in Hm.
  destruct tl as [|sp o]; [inversion H; subst; exact Hm|].
  destruct (_ && _); inversion H; subst; exact Hm.
Qed.

Lemma parse_header_id : forall valid h level name id opts,
  parse_header valid h = HOk level name id opts ->
  id = build_id level name /\ In name header_names /\ in_ids id valid = true.
Proof.
  intros valid h level name id opts H. unfold parse_header in H.
  destruct (match_header_re h) as [[[dots nm] ostr]|] eqn:Hm; [|discriminate].
  apply match_header_re_name in Hm.
  destruct (in_ids (build_id dots nm) valid) eqn:Hv; cbn [negb] in H; [|discriminate].
  destruct ostr as [s|].
  - destruct (parse_pairs h (bsplit comma_space s) []); inversion H; subst; auto.
  - inversion H; subst; auto.
Qed.

Definition header_post (valid : list bytes) (st : rstate) (r : header_result) : Prop :=
  match r with
  | HdrEof => True
  | HdrParse l c => l = st_linenum st
  | HdrExc e => False
  | HdrOk level name id opts line st1 =>
      line = st_linenum st /\ st_linenum st1 = (st_linenum st + 1)%Z /\
      sdata st1 = sdata st /\ (wf_rstate st -> wf_rstate st1) /\ pos st < pos st1 /\
      id = build_id level name /\ In name header_names /\ in_ids id valid = true
  end.

Lemma read_header_spec : forall chunk valid st,
  0 < chunk -> header_post valid st (read_header chunk valid st).
Proof.
  intros chunk valid st Hc. unfold read_header.
  destruct (next_nonblank_spec (S (List.length (remaining (st_stream st)))) chunk (st_stream st) Hc (Nat.lt_succ_diag_r _))
    as (o & s' & R & A & W & P).
  rewrite R. destruct o as [header|]; [|exact I].
  destruct (negb (bends _ header)); [reflexivity|].
  destruct (parse_header valid _) as [level name id opts|col] eqn:Hp; [|reflexivity].
  apply parse_header_id in Hp. destruct P as [P1 [l Hl]].
  unfold header_post, sdata, pos, wf_rstate. cbn [st_stream st_linenum].
  repeat split; auto; try tauto.
  rewrite Hl, app_length in P1. cbn [List.length] in P1. lia.
Qed.

(* ------------------------------------------------------------------------------------------------ *)
(* The order table: finite facts, by computation                                                     *)

Definition dots (id : bytes) : nat := fst (take_dots id).
(* nesting depth of the container a section sits in (content) or is (container): what prev_level is after it *)
Definition depth (id : bytes) : nat := if is_content id then dots id - 1 else dots id.

Definition sec_main := GenSections.sec_main.
Definition sec_change := GenSections.sec_change.
Definition sec_file := GenSections.sec_file.
Definition sec_file_diff := GenSections.sec_file_diff.

(* what must hold of an id that the table allows after k *)
Definition follows_ok (k id : bytes) : bool :=
  (match table_get id with Some _ => true | None => false end) &&
  (if is_content id
   then (is_preamble id || is_meta id || beq id sec_file_diff)
        && negb (beq id sec_main || beq id sec_change || beq id sec_file)
        && Nat.eqb (depth id) (depth k)
   else (beq id sec_change || beq id sec_file) && negb (beq id sec_main) && Nat.leb (dots id) (depth k + 1)).

Lemma table_ok : forallb (fun kv => forallb (follows_ok (fst kv)) (snd kv)) GenSections.valid_states = true.
Proof. vm_compute. reflexivity. Qed.

Lemma main_ok :
  (match table_get sec_main with Some _ => true | None => false end) && negb (is_content sec_main) &&
  Nat.eqb (dots sec_main) 0 && Nat.eqb (dots sec_change) 1 && Nat.eqb (dots sec_file) 2 &&
  negb (beq sec_change sec_main) && negb (beq sec_file sec_main) && negb (beq sec_file sec_change) = true.
Proof. vm_compute. reflexivity. Qed.

Lemma follows : forall k valid id, table_get k = Some valid -> in_ids id valid = true -> follows_ok k id = true.
Proof.
  intros k valid id Ht Hin. unfold table_get in Ht. apply assoc_get_in in Ht.
  pose proof table_ok as T. rewrite forallb_forall in T. specialize (T _ Ht). cbn [fst snd] in T.
  rewrite forallb_forall in T. apply T. apply mem_beq_in. exact Hin.
Qed.

Lemma dots_build_id : forall level name, In name header_names -> dots (build_id level name) = level.
Proof.
  intros level name Hin. unfold dots, build_id.
  induction level as [|n IH]; cbn [repeat_b app].
  - unfold header_names in Hin. cbn [In] in Hin.
    repeat (destruct Hin as [<-|Hin]; [reflexivity|]). contradiction.
  - cbn [take_dots]. change (byte_eqb "." ".") with true. cbv iota.
    destruct (take_dots (repeat_b "." n ++ name)) as [m r]. cbn [fst] in *. congruence.
Qed.

(* ------------------------------------------------------------------------------------------------ *)
(* The invariant of the loop of iter_sections: the encoding stack is as deep as the nesting           *)

Inductive Inv : list bytes -> list (option pv) -> nat -> Prop :=
| Inv_init : forall e, Inv [GenSections.sec_main] [e] 0
| Inv_run : forall k valid encs prev,
    table_get k = Some valid -> prev = depth k -> List.length encs = prev + 2 -> Inv valid encs prev.

Lemma id_facts : forall valid encs prev level name id,
  Inv valid encs prev -> In name header_names -> id = build_id level name -> in_ids id valid = true ->
  exists nxt, table_get id = Some nxt /\
   ( (is_content id = true /\ (is_preamble id || is_meta id || beq id sec_file_diff) = true /\
      beq id sec_main = false /\ beq id sec_change = false /\ beq id sec_file = false /\
      prev = depth id /\ List.length encs = prev + 2)
     \/ (is_content id = false /\ beq id sec_main = true /\ level = 0 /\ prev = 0 /\ List.length encs = 1 /\
         depth id = 0)
     \/ (is_content id = false /\ beq id sec_main = false /\ (beq id sec_change || beq id sec_file) = true /\
         level <= prev + 1 /\ List.length encs = prev + 2 /\ level = depth id /\
         (beq id sec_change = true -> level = 1) /\
         (beq id sec_change = false -> beq id sec_file = true -> level = 2)) ).
Proof.
  intros valid encs prev level name id HI Hname Hid Hin.
  pose proof (dots_build_id level name Hname) as Hd. rewrite <- Hid in Hd. clear Hid.
  pose proof main_ok as M. rewrite !andb_true_iff, !negb_true_iff, !Nat.eqb_eq in M.
  destruct M as [[[[[[[M1 M2] M3] M4] M5] M6] M7] M8].
  destruct HI as [e|k valid encs prev Hk Hp Hl].
  - cbn [in_ids mem] in Hin. unfold in_ids in Hin. cbn [mem] in Hin. rewrite orb_false_r in Hin.
    pose proof (beq_true _ _ Hin) as E. fold sec_main in E. subst id.
    destruct (table_get sec_main) as [nxt|]; [|discriminate]. exists nxt. split; [reflexivity|].
    right; left. unfold depth. rewrite M2. repeat split; auto; try congruence.
  - pose proof (follows _ _ _ Hk Hin) as F. unfold follows_ok in F.
    destruct (table_get id) as [nxt|]; [|discriminate]. exists nxt. split; [reflexivity|].
    cbn [andb] in F. destruct (is_content id) eqn:C.
    + left. rewrite !andb_true_iff, negb_true_iff, !orb_false_iff, Nat.eqb_eq in F.
      destruct F as [[F1 [[F2 F3] F4]] F5]. repeat split; auto. congruence.
    + right; right. rewrite !andb_true_iff, negb_true_iff, Nat.leb_le in F.
      destruct F as [[F1 F2] F3]. unfold depth. rewrite C.
      split; [reflexivity|]. split; [exact F2|]. split; [exact F1|].
      split; [clear - F3 Hd Hp; lia|]. split; [exact Hl|]. split; [congruence|]. split.
      * intros E. apply beq_true in E. fold sec_change in E. subst id. congruence.
      * intros _ E. apply beq_true in E. fold sec_file in E. subst id. congruence.
Qed.

(* ------------------------------------------------------------------------------------------------ *)
(* One iteration of iter_sections                                                                    *)

Definition LInv (st : rstate) : Prop := (0 <= st_linenum st <= Z.of_nat (pos st))%Z.

(* what the DOM loader needs to know of a record, given the nesting depth before it *)
Definition step_depth (d : nat) (r : record) : option nat :=
  let id := r_id r in
  if beq id sec_main then Some 0
  else if beq id sec_change then Some 1
  else if beq id sec_file then (if 1 <=? d then Some 2 else None)
  else match r_payload r with PNone => None | _ => Some d end.

Definition step_post (st : rstate) (prev : nat) (r : step_result) : Prop :=
  match r with
  | SDone => True
  | SParse l c => (0 <= l <= Z.of_nat (List.length (sdata st)))%Z
  | SExc e => e = EUnmodelled \/ e = EOracleMiss
  | SYield r st' valid' encs' prev' =>
      Inv valid' encs' prev' /\ sdata st' = sdata st /\ wf_rstate st' /\ pos st < pos st' /\ LInv st' /\
      step_depth prev r = Some prev'
  end.

Lemma pop_n_len : forall {A} n (l : list A), n <= List.length l ->
  exists l', pop_n n l = Some l' /\ List.length l' = List.length l - n.
Proof.
  induction n as [|n IH]; intros l H; cbn [pop_n].
  - exists l. split; [reflexivity|lia].
  - destruct l as [|x t]; cbn [List.length] in *; [lia|]. apply IH. lia.
Qed.

Lemma iter_step_spec : forall orc chunk st valid encs prev,
  0 < chunk -> wf_rstate st -> LInv st -> Inv valid encs prev ->
  step_post st prev (iter_step orc chunk st valid encs prev).
Proof.
  intros orc chunk st valid encs prev Hc Hwf HL HI. unfold iter_step.
  pose proof (read_header_spec chunk valid st Hc) as Hh.
  destruct (read_header chunk valid st) as [|level name id opts line st1|l c|e]; cbn [header_post] in Hh.
  - exact I.
  - destruct Hh as (-> & Hln & Hdat & Hwf1 & Hpos & Hid & Hname & Hin).
    specialize (Hwf1 Hwf).
    assert (Hb0 : (0 <= st_linenum st <= Z.of_nat (List.length (sdata st)))%Z).
    { unfold LInv, pos, sdata, wf_rstate, wf_stream in *. lia. }
    assert (Hb1 : (0 <= st_linenum st1 <= Z.of_nat (List.length (sdata st)))%Z).
    { unfold LInv, pos, sdata, wf_rstate, wf_stream in *. rewrite Hdat in Hwf1. lia. }
    assert (Hb2 : (0 <= st_linenum st1 - 1 <= Z.of_nat (List.length (sdata st)))%Z) by lia.
    destruct (id_facts valid encs prev level name id HI Hname Hid Hin) as (nxt & Ht & [C|[M|N]]).
    + (* content section *)
      destruct C as (C1 & C2 & C3 & C4 & C5 & C6 & C7).
      cbv zeta. rewrite Ht, C1.
      destruct encs as [|inh encs']; [cbn [List.length] in C7; lia|]. cbn [top].
      assert (forall p st2, content_post st1 (COk p st2) ->
                step_post st prev (SYield {| r_level := level; r_line := st_linenum st; r_opts := opts; r_id := id;
                                             r_type := name; r_payload := p |} st2 nxt (inh :: encs') prev)) as Hyield.
      { intros p st2 (P1 & P2 & P3 & P4 & P5 & P6). cbn [step_post].
        split; [eapply Inv_run; eauto|]. split; [congruence|]. split; [auto|].
        split; [lia|]. split; [unfold LInv, pos in *; lia|].
        unfold step_depth. cbn [r_id r_payload]. rewrite C3, C4, C5. destruct p; congruence. }
      assert (forall l, content_post st1 (CParse l) -> step_post st prev (SParse l None)) as Hparse.
      { intros l [-> | ->]; cbn [step_post]; assumption. }
      destruct (opt_get "length" opts) as [[len|?]|]; try exact Hb0.
      destruct (len <? 0)%Z; [exact Hb0|].
      destruct (is_preamble id).
      { match goal with |- context [read_content ?a1 ?a2 ?a3 ?a4 ?a5 ?a6] =>
          pose proof (read_content_spec a1 a2 a3 a4 a5 a6) as Hrc; destruct (read_content a1 a2 a3 a4 a5 a6) as [p st2|l|ex] end.
        - apply Hyield; exact Hrc.
        - apply Hparse; exact Hrc.
        - left; exact Hrc. }
      destruct (is_meta id).
      { destruct (negb _); [exact Hb0|].
        match goal with |- context [read_content ?a1 ?a2 ?a3 ?a4 ?a5 ?a6] =>
          pose proof (read_content_spec a1 a2 a3 a4 a5 a6) as Hrc; destruct (read_content a1 a2 a3 a4 a5 a6) as [p st2|l|ex] end.
        - destruct (assoc_get beq _ orc) as [[j| |]|]; try exact Hb0; [|right; reflexivity].
          apply Hyield. destruct Hrc as (P1 & P). split; [discriminate|exact P].
        - apply Hparse; exact Hrc.
        - left; exact Hrc. }
      cbn [orb] in C2. fold sec_file_diff. rewrite C2.
      match goal with |- context [read_content ?a1 ?a2 ?a3 ?a4 ?a5 ?a6] =>
        pose proof (read_content_spec a1 a2 a3 a4 a5 a6) as Hrc; destruct (read_content a1 a2 a3 a4 a5 a6) as [p st2|l|ex] end.
      * apply Hyield; exact Hrc.
      * apply Hparse; exact Hrc.
      * left; exact Hrc.
    + (* the main section *)
      destruct M as (M1 & M2 & M3 & M4 & M5 & M6).
      cbv zeta. rewrite Ht, M1. fold sec_main. rewrite M2.
      destruct (match opt_get "version" opts with Some (VStr v) => in_ids v GenText.versions | _ => false end);
        [|exact Hb0].
      destruct encs as [|e0 [|? ?]]; cbn [List.length] in M5; try lia. cbn [top step_post].
      split; [eapply Inv_run; [exact Ht|lia|cbn [List.length]; lia]|].
      split; [exact Hdat|]. split; [exact Hwf1|]. split; [exact Hpos|].
      split; [unfold LInv, pos in *; lia|].
      unfold step_depth. cbn [r_id]. rewrite M2. congruence.
    + (* .change / ..file *)
      destruct N as (N1 & N2 & N3 & N4 & N5 & N6 & N7 & N8).
      cbv zeta. rewrite Ht, N1. fold sec_main sec_change sec_file. rewrite N2, N3.
      destruct (pop_n_len (prev + 1 - level) encs) as (encs1 & Hp & Hl1); [lia|]. rewrite Hp.
      destruct encs1 as [|cur encs1']; [cbn [List.length] in Hl1; lia|]. cbn [top step_post].
      split; [eapply Inv_run; [exact Ht|exact N6|cbn [List.length] in *; lia]|].
      split; [exact Hdat|]. split; [exact Hwf1|]. split; [exact Hpos|].
      split; [unfold LInv, pos in *; lia|].
      unfold step_depth. cbn [r_id]. rewrite N2.
      destruct (beq id sec_change) eqn:Ech.
      * rewrite (N7 eq_refl). reflexivity.
      * cbn [orb] in N3. rewrite N3. specialize (N8 eq_refl N3). rewrite N8 in N4 |- *.
        destruct (1 <=? prev) eqn:Q; [reflexivity|]. apply Nat.leb_gt in Q. lia.
  - cbn [step_post]. subst l. unfold LInv, pos, sdata, wf_rstate, wf_stream in *. lia.
  - contradiction.
Qed.

(* ------------------------------------------------------------------------------------------------ *)
(* The loop                                                                                          *)

Fixpoint chain (d : nat) (rs : list record) : option nat :=
  match rs with
  | [] => Some d
  | r :: t => match step_depth d r with Some d' => chain d' t | None => None end
  end.

Lemma chain_snoc : forall rs d r d1, chain d rs = Some d1 -> chain d (rs ++ [r]) = step_depth d1 r.
Proof.
  induction rs as [|x t IH]; intros d r d1 H; cbn [chain app] in *.
  - inversion H; subst. destruct (step_depth d1 r); reflexivity.
  - destruct (step_depth d x); [eauto|discriminate].
Qed.

Lemma frev_cons : forall {A} (x : A) l, frev (x :: l) = frev l ++ [x].
Proof. intros. unfold frev. cbn [rev_append]. rewrite (rev_append_rev l [x]), (rev_append_rev l []), app_nil_r. reflexivity. Qed.

Definition term_post (data : bytes) (t : term) : Prop :=
  match t with
  | TEnd => True
  | TParse l c => (0 <= l <= Z.of_nat (List.length data))%Z
  | TExc e => e = EUnmodelled \/ e = EOracleMiss
  | TFuel => False
  end.

Lemma iter_loop_spec : forall fuel orc chunk st valid encs prev acc d0,
  0 < chunk -> wf_rstate st -> LInv st -> Inv valid encs prev ->
  List.length (sdata st) - pos st < fuel ->
  chain d0 (frev acc) = Some prev ->
  term_post (sdata st) (snd (iter_loop fuel orc chunk st valid encs prev acc)) /\
  exists d, chain d0 (fst (iter_loop fuel orc chunk st valid encs prev acc)) = Some d.
Proof.
  induction fuel as [|f IH]; intros orc chunk st valid encs prev acc d0 Hc Hwf HL HI Hf Hch; [lia|].
  cbn [iter_loop]. pose proof (iter_step_spec orc chunk st valid encs prev Hc Hwf HL HI) as S.
  destruct (iter_step orc chunk st valid encs prev) as [|r st' valid' encs' prev'|l c|e];
    cbn [step_post] in S; cbn [fst snd term_post].
  - split; [exact I|eauto].
  - destruct S as (I' & D & W & P & L & SD). rewrite <- D. apply IH; auto.
    + unfold wf_rstate, wf_stream, pos, sdata in *. rewrite D in *. lia.
    + rewrite frev_cons. rewrite (chain_snoc _ _ r _ Hch). exact SD.
  - split; [exact S|eauto].
  - split; [exact S|eauto].
Qed.

Theorem read_all_spec : forall orc chunk data, 0 < chunk ->
  term_post data (snd (read_all orc chunk data)) /\ exists d, chain 0 (fst (read_all orc chunk data)) = Some d.
Proof.
  intros orc chunk data Hc. unfold read_all.
  set (st0 := {| st_stream := {| s_data := data; s_pos := 0 |}; st_linenum := 0%Z; st_fnl := None |}).
  change data with (sdata st0) at 2.
  apply iter_loop_spec; auto.
  - apply wf_initial.
  - unfold LInv, pos; cbn. lia.
  - constructor.
  - unfold sdata, pos; cbn. lia.
Qed.

(* C08, streaming half *)
Theorem C08_total_proof : forall orc chunk data, 0 < chunk -> snd (read_all orc chunk data) <> TFuel.
Proof.
  intros orc chunk data Hc E. destruct (read_all_spec orc chunk data Hc) as [T _]. rewrite E in T. exact T.
Qed.

Theorem C08_no_other_exception_proof : forall orc chunk data e, 0 < chunk ->
  snd (read_all orc chunk data) = TExc e -> e = EUnmodelled \/ e = EOracleMiss.
Proof.
  intros orc chunk data e Hc E. destruct (read_all_spec orc chunk data Hc) as [T _]. rewrite E in T. exact T.
Qed.

Theorem C08_linenum_proof : forall orc chunk data l c, 0 < chunk ->
  snd (read_all orc chunk data) = TParse l c -> (0 <= l)%Z /\ (l <= Z.of_nat (List.length data))%Z.
Proof.
  intros orc chunk data l c Hc E. destruct (read_all_spec orc chunk data Hc) as [T _]. rewrite E in T. exact T.
Qed.

Theorem C08_contract_proof : forall orc chunk data, 0 < chunk ->
  let t := snd (read_all orc chunk data) in
  t = TEnd \/ (exists l c, t = TParse l c /\ (0 <= l <= Z.of_nat (List.length data))%Z) \/
  t = TExc EUnmodelled \/ t = TExc EOracleMiss.
Proof.
  intros orc chunk data Hc t. destruct (read_all_spec orc chunk data Hc) as [T _]. fold t in T.
  destruct t as [|l c|e|]; cbn [term_post] in T.
  - left; reflexivity.
  - right; left; eauto.
  - right; right. destruct T; subst; auto.
  - contradiction.
Qed.

(* ------------------------------------------------------------------------------------------------ *)
(* DOM half: loading the records into the object model                                               *)

Definition ok_err (e : exn) : Prop := is_lib_error e = true \/ e = EUnmodelled \/ e = EOracleMiss.

(* what a property setter can raise *)
Definition setter_err (e : exn) : Prop := e = ELibOptionValue \/ e = ELibChoice \/ e = EType \/ e = EAttribute.

Lemma set_option_err : forall o n t c v e, set_option o n t c v = Err e -> setter_err e.
Proof.
  intros o n t c v e H. unfold set_option, setter_err in *.
  destruct (negb (has_type t v)); [inversion H; auto|].
  destruct c as [cs|]; [|discriminate].
  destruct (in_strset v cs) as [[|]|e'] eqn:I.
  - discriminate.
  - destruct (nonempty cs); inversion H; auto.
  - inversion H; subst. unfold in_strset in I. destruct v; inversion I; auto.
Qed.

Ltac setter_cases H :=
  repeat match type of H with
         | bind ?r _ = Err _ =>
             let E := fresh "E" in destruct r eqn:E; cbn [bind] in H;
             [try discriminate H | inversion H; subst; eapply set_option_err; eassumption]
         | (if ?x then _ else _) = Err _ => destruct x
         | (match ?x with _ => _ end) = Err _ => destruct x
         end;
  try discriminate H;
  try (inversion H; subst; unfold setter_err; tauto).

Lemma set_psec_err : forall s a v e, set_psec s a v = Err e -> setter_err e.
Proof. intros s a v e H. unfold set_psec in H. cbv zeta in H. setter_cases H. Qed.
Lemma set_msec_err : forall s a v e, set_msec s a v = Err e -> setter_err e.
Proof. intros s a v e H. unfold set_msec in H. cbv zeta in H. setter_cases H. Qed.
Lemma set_dsec_err : forall s a v e, set_dsec s a v = Err e -> setter_err e.
Proof. intros s a v e H. unfold set_dsec in H. cbv zeta in H. setter_cases H. Qed.

Ltac container_cases H :=
  repeat match type of H with
         | bind ?r _ = Err _ =>
             let E := fresh "E" in destruct r eqn:E; cbn [bind] in H; [try discriminate H | inversion H; subst]
         | (if ?x then _ else _) = Err _ => destruct x
         | (match ?x with _ => _ end) = Err _ => destruct x
         end;
  try discriminate H;
  eauto using set_option_err, set_psec_err, set_msec_err, set_dsec_err;
  try (inversion H; subst; unfold setter_err; tauto).

Lemma set_file_attr_err : forall f n v e, set_file_attr f n v = Err e -> setter_err e.
Proof. intros f n v e H. unfold set_file_attr in H. container_cases H. Qed.
Lemma set_change_attr_err : forall c n v e, set_change_attr c n v = Err e -> setter_err e.
Proof. intros c n v e H. unfold set_change_attr in H. container_cases H. Qed.

Lemma apply_attrs_err : forall {T} (set : T -> bytes -> wv -> res T),
  (forall x k v e, set x k v = Err e -> setter_err e) ->
  forall attrs x e, to_parse (apply_attrs set x attrs) = Err e -> is_lib_error e = true.
Proof.
  intros T set Hset. induction attrs as [|[k v] r IH]; intros x e H; cbn [apply_attrs] in H.
  - discriminate.
  - destruct (set x k v) as [x'|e'] eqn:E; cbn [unknown_to_lib bind] in H.
    + eauto.
    + apply Hset in E. unfold setter_err in E.
      destruct E as [-> | [-> | [-> | ->]]]; cbn in H; inversion H; reflexivity.
Qed.

Lemma set_last_snoc : forall {A} (f : A -> res A) l x,
  set_last f (l ++ [x]) = bind (f x) (fun y => Ok (l ++ [y])).
Proof.
  induction l as [|a l IH]; intros x; [reflexivity|].
  cbn [app set_last]. destruct (l ++ [x]) eqn:E; [destruct l; discriminate|].
  rewrite <- E, IH. destruct (f x); reflexivity.
Qed.

(* the cursor of the DOM reader is the reader's nesting depth, and the container it points at exists *)
Definition DInv (d : nat) (tc : dtree * cursor) : Prop :=
  match snd tc with
  | AtMain => d = 0
  | AtChange => d = 1 /\ exists cs c, d_changes (fst tc) = cs ++ [c]
  | AtFile => d = 2 /\ exists cs c fs f, d_changes (fst tc) = cs ++ [c] /\ c_files c = fs ++ [f]
  end.

Lemma DInv_change : forall d t cur, DInv d (t, cur) -> 1 <= d -> exists cs c, d_changes t = cs ++ [c].
Proof.
  intros d t cur H Hd. unfold DInv in H. cbn [fst snd] in H. destruct cur.
  - lia.
  - destruct H as [_ H]; exact H.
  - destruct H as [_ (cs & c & fs & f & H & _)]; eauto.
Qed.

Definition record_post (d' : nat) (r : res (dtree * cursor)) : Prop :=
  match r with Ok tc' => DInv d' tc' | Err e => ok_err e end.

Lemma apply_record_spec : forall d tc r d',
  DInv d tc -> step_depth d r = Some d' -> record_post d' (apply_record tc r).
Proof.
  intros d [t cur] r d' HD HS. unfold apply_record. cbv zeta.
  unfold step_depth, sec_main, sec_change, sec_file in HS. cbv zeta in HS.
  destruct (beq (r_id r) GenSections.sec_main).
  { inversion HS; subst. reflexivity. }
  destruct (beq (r_id r) GenSections.sec_change).
  { inversion HS; subst d'.
    destruct (has_slot_key _); [right; left; reflexivity|].
    destruct (to_parse (apply_attrs set_change_attr new_change _)) as [c|e] eqn:E; cbn [bind].
    - cbn. split; [reflexivity|eauto].
    - left. eapply (apply_attrs_err set_change_attr set_change_attr_err); eauto. }
  destruct (beq (r_id r) GenSections.sec_file).
  { destruct (1 <=? d) eqn:Q; [|discriminate]. apply Nat.leb_le in Q. inversion HS; subst d'.
    destruct (has_slot_key _); [right; left; reflexivity|].
    destruct (to_parse (apply_attrs set_file_attr new_file _)) as [f|e] eqn:E; cbn [bind].
    - destruct (DInv_change _ _ _ HD Q) as (cs & c & Hcs). rewrite Hcs, set_last_snoc. cbn [bind].
      cbn. split; [reflexivity|]. do 4 eexists. split; reflexivity.
    - left. eapply (apply_attrs_err set_file_attr set_file_attr_err); eauto. }
  unfold DInv in HD. cbn [fst snd] in HD.
  destruct (r_payload r) as [|txt|b|j]; [discriminate| | |]; inversion HS; subst d'; clear HS.
  - (* preamble text *)
    destruct cur; cbn [bind].
    + exact HD.
    + destruct HD as [Hd (cs & c & Hcs)]. rewrite Hcs, set_last_snoc. cbn [bind].
      cbn. split; [exact Hd|eauto].
    + left; reflexivity.
  - (* bytes *)
    destruct (beq (r_id r) GenSections.sec_file_diff); [|left; reflexivity].
    destruct cur; try (left; reflexivity).
    destruct HD as [Hd (cs & c & fs & f & Hcs & Hfs)].
    rewrite Hcs, set_last_snoc, Hfs, set_last_snoc. cbn [bind].
    cbn. split; [exact Hd|]. do 4 eexists. split; reflexivity.
  - (* metadata *)
    destruct j; try (left; reflexivity).
    destruct cur; cbn [bind].
    + exact HD.
    + destruct HD as [Hd (cs & c & Hcs)]. rewrite Hcs, set_last_snoc. cbn [bind].
      cbn. split; [exact Hd|eauto].
    + destruct HD as [Hd (cs & c & fs & f & Hcs & Hfs)].
      rewrite Hcs, set_last_snoc, Hfs, set_last_snoc. cbn [bind].
      cbn. split; [exact Hd|]. do 4 eexists. split; reflexivity.
Qed.

Lemma apply_records_spec : forall rs d tc d',
  DInv d tc -> chain d rs = Some d' -> record_post d' (apply_records tc rs).
Proof.
  induction rs as [|r rs IH]; intros d tc d' HD HC; cbn [chain apply_records] in *.
  - inversion HC; subst. exact HD.
  - destruct (step_depth d r) as [d1|] eqn:S; [|discriminate].
    pose proof (apply_record_spec d tc r d1 HD S) as R.
    destruct (apply_record tc r) as [tc1|e]; cbn [bind record_post] in *; eauto.
Qed.

Theorem C08_dom_proof : forall orc data e, dom_read orc data = Err e ->
  is_lib_error e = true \/ e = EUnmodelled \/ e = EOracleMiss.
Proof.
  intros orc data e H. unfold dom_read in H.
  assert (0 < default_chunk) as Hc by (unfold default_chunk; lia).
  destruct (read_all_spec orc default_chunk data Hc) as [T [d C]].
  destruct (read_all orc default_chunk data) as [rs term]. cbn [fst snd] in *.
  assert (DInv 0 (new_tree, AtMain)) as H0 by reflexivity.
  pose proof (apply_records_spec rs 0 _ d H0 C) as R.
  destruct (apply_records (new_tree, AtMain) rs) as [[t cur]|e']; cbn [record_post] in R.
  - destruct term as [|l c|e'|]; cbn [term_post] in T.
    + discriminate.
    + inversion H; subst. left; reflexivity.
    + inversion H; subst. right; exact T.
    + contradiction.
  - inversion H; subst. exact R.
Qed.

(* ------------------------------------------------------------------------------------------------ *)
(* Reachable states (StreamFacts.reachable): invariants and progress                                  *)

Theorem reachable_inv : forall orc chunk data st valid encs prev,
  0 < chunk -> reachable orc chunk data st valid encs prev ->
  wf_rstate st /\ LInv st /\ Inv valid encs prev /\ sdata st = data.
Proof.
  intros orc chunk data st valid encs prev Hc H. induction H as [|st valid encs prev r st' valid' encs' prev' H IH Hs].
  - split; [apply wf_initial|]. split; [unfold LInv, pos; cbn; lia|]. split; [constructor|reflexivity].
  - destruct IH as (W & L & I' & D).
    pose proof (iter_step_spec orc chunk st valid encs prev Hc W L I') as S. rewrite Hs in S.
    destruct S as (S1 & S2 & S3 & S4 & S5 & S6).
    split; [exact S3|]. split; [exact S5|]. split; [exact S1|congruence].
Qed.

(* every yielded section consumes at least one byte: this is why the fuel S (length data) of read_all suffices *)
Theorem iter_step_progress : forall orc chunk data st valid encs prev r st' valid' encs' prev',
  0 < chunk -> reachable orc chunk data st valid encs prev ->
  iter_step orc chunk st valid encs prev = SYield r st' valid' encs' prev' ->
  List.length (remaining (st_stream st')) < List.length (remaining (st_stream st)).
Proof.
  intros orc chunk data st valid encs prev r st' valid' encs' prev' Hc HR Hs.
  destruct (reachable_inv _ _ _ _ _ _ _ Hc HR) as (W & L & I' & D).
  pose proof (iter_step_spec orc chunk st valid encs prev Hc W L I') as S. rewrite Hs in S.
  destruct S as (S1 & S2 & S3 & S4 & S5 & S6).
  rewrite !remaining_length. unfold wf_rstate, wf_stream, pos, sdata in *. rewrite S2 in *. lia.
Qed.

(* the line counter never exceeds the number of bytes consumed, at every reachable state *)
Theorem reachable_linenum : forall orc chunk data st valid encs prev,
  0 < chunk -> reachable orc chunk data st valid encs prev ->
  (0 <= st_linenum st <= Z.of_nat (s_pos (st_stream st)))%Z /\ s_pos (st_stream st) <= List.length data.
Proof.
  intros orc chunk data st valid encs prev Hc HR.
  destruct (reachable_inv _ _ _ _ _ _ _ Hc HR) as (W & L & _ & D).
  unfold wf_rstate, wf_stream, LInv, pos, sdata in *. rewrite D in W. auto.
Qed.

(* ------------------------------------------------------------------------------------------------ *)
(* The sharper bound "line number <= number of LF bytes in the input".                               *)
(* It was FALSE while _read_content tested "ends with the newline" only on the content AFTER the      *)
(* indentation had been stripped: an unterminated last line made of spaces only (the two spaces after *)
(* "a\n" in lf_witness below) was accepted and counted as a line although it contains no LF. Since    *)
(* the raw content must end with the newline, every counted content line ends with the section's     *)
(* newline, every newline of the codec catalogue contains an LF byte, every header line ends with LF: *)
(* the line counter plus the number of LF bytes not yet consumed never increases.                    *)

Definition ex_main_hdr : bytes := B "#diffx: version=1.0" ++ [lf].

Definition count_lf (d : bytes) : nat := List.length (filter (fun b => byte_eqb b lf) d).

(* the former counter-example: the preamble is now rejected, at line 2 of an input with 4 LF bytes *)
Definition lf_witness : bytes :=
  B "#diffx: version=1.0" ++ [lf] ++
  B "#.preamble: indent=2, length=4" ++ [lf] ++ B "a" ++ [lf] ++ B "  " ++
  B "#.meta: length=1, encoding=nope" ++ [lf] ++ B "X".

Example lf_witness_now : read_all [] default_chunk lf_witness = ([{| r_level := 0; r_line := 0;
    r_opts := [(B "version", VStr (B "1.0"))]; r_id := B "diffx"; r_type := B "diffx"; r_payload := PNone |}],
    TParse 2 None) /\ count_lf lf_witness = 4.
Proof. split; vm_compute; reflexivity. Qed.

Lemma count_lf_app : forall a b, count_lf (a ++ b) = count_lf a + count_lf b.
Proof. intros a b. unfold count_lf. rewrite filter_app, app_length. reflexivity. Qed.

Lemma count_lf_cons : forall x l, count_lf l <= count_lf (x :: l).
Proof. intros x l. change (x :: l) with ([x] ++ l). rewrite count_lf_app. lia. Qed.

Lemma byte_eqb_iff : forall a b, byte_eqb a b = true <-> a = b.
Proof.
  intros a b. unfold byte_eqb. split; [apply Byte.byte_dec_bl|intros ->; apply Byte.byte_dec_lb; reflexivity].
Qed.

(* ---- every newline of the catalogue contains an LF byte: a table fact, by computation ---- *)
Definition gn_has_lf (le : bytes) (enc : option bytes) : bool :=
  match get_newline_for_type le enc with Ok nl => 1 <=? count_lf nl | Err _ => true end.

Lemma gn_has_lf_all :
  forallb (fun le => gn_has_lf le None &&
                     forallb (fun r => gn_has_lf le (Some (GenCodecs.cr_spelling r))) GenCodecs.rows)
          (map fst GenText.newline_formats) = true.
Proof. vm_compute. reflexivity. Qed.

Lemma get_newline_has_lf : forall le enc nl, get_newline_for_type le enc = Ok nl -> 1 <= count_lf nl.
Proof.
  intros le enc nl H.
  assert (gn_has_lf le enc = true) as Hok.
  { pose proof gn_has_lf_all as Hall. rewrite forallb_forall in Hall.
    destruct (assoc_get beq le GenText.newline_formats) as [t|] eqn:Ele.
    2:{ unfold get_newline_for_type in H. rewrite Ele in H. discriminate H. }
    apply assoc_get_in in Ele. apply (in_map fst) in Ele. cbn [fst] in Ele.
    specialize (Hall le Ele). apply andb_true_iff in Hall. destruct Hall as [Hnone Hrows].
    destruct enc as [e|]; [|exact Hnone].
    destruct (find_row e GenCodecs.rows) as [r|] eqn:F.
    - apply find_row_in in F. destruct F as [Hin ->]. rewrite forallb_forall in Hrows. exact (Hrows r Hin).
    - unfold get_newline_for_type, enc_or_ascii, py_encode, lookup_codec in H.
      destruct (assoc_get beq le GenText.newline_formats); [|discriminate].
      rewrite F in H. discriminate H. }
  unfold gn_has_lf in Hok. rewrite H in Hok. apply Nat.leb_le. exact Hok.
Qed.

Lemma guess_has_lf : forall data enc p, guess_line_endings_bytes data enc = Ok p -> 1 <= count_lf (snd p).
Proof.
  intros data enc p. unfold guess_line_endings_bytes.
  pose proof (get_newline_known GenText.le_unix enc (or_introl eq_refl)) as Gu.
  pose proof (get_newline_known GenText.le_dos enc (or_intror (or_introl eq_refl))) as Gd.
  destruct (py_encode (nl_text GenText.le_unix) (enc_or_ascii enc)) as [u0|e] eqn:Eu; cbn [bind] in *; [|discriminate].
  destruct (py_encode (nl_text GenText.le_dos) (enc_or_ascii enc)) as [d0|e] eqn:Ed; cbn [bind] in *; [|discriminate].
  apply get_newline_has_lf in Gu. apply get_newline_has_lf in Gd.
  destruct (bfind _ data); [destruct (bends _ _)|]; intros H; injection H as <-; cbn [snd]; assumption.
Qed.

Lemma nl_res_has_lf : forall le enc content nl, nl_res_of le enc content = Ok nl -> 1 <= count_lf nl.
Proof.
  intros le enc content nl. unfold nl_res_of.
  destruct (pv_given le).
  - destruct le as [[z|s]|]; try discriminate. apply get_newline_has_lf.
  - destruct (guess_line_endings_bytes content enc) as [p|e] eqn:G; cbn [bind]; [|discriminate].
    intros H. injection H as <-. eapply guess_has_lf; eauto.
Qed.

(* ---- a content that ends with its newline has at most as many lines as LF bytes ---- *)
Lemma split_aux_lf : forall sep, sep <> [] -> 1 <= count_lf sep ->
  forall l cur, List.length (split_aux byte_eqb sep cur l 0) <= count_lf l + 1.
Proof.
  intros sep Hs Hlf.
  apply (TextFacts.split_aux_ind byte_eqb byte_eqb_iff sep Hs
           (fun _ l res => List.length res <= count_lf l + 1)).
  - intros cur. cbn [List.length]. lia.
  - intros cur r IH. cbn [List.length]. rewrite count_lf_app. lia.
  - intros cur x t _ IH. pose proof (count_lf_cons x t). lia.
Qed.

Lemma split_lines_lf : forall d nl ls,
  split_lines d nl true = Ok ls -> bends nl d = true -> 1 <= count_lf nl -> List.length ls <= count_lf d.
Proof.
  intros d nl ls H Hb Hlf. unfold split_lines, split_lines_g in H. unfold bends in Hb.
  destruct d as [|d0 d']; [discriminate|]. destruct nl as [|n0 nl']; [discriminate|].
  cbn [is_nil] in H. rewrite Hb in H. injection H as <-.
  rewrite removelast_len, map_length. unfold split.
  pose proof (split_aux_lf (n0 :: nl') ltac:(discriminate) Hlf (d0 :: d') []). lia.
Qed.

(* ---- the potential: line counter + LF bytes not yet consumed; it never increases ---- *)
Definition lines_bound (st : rstate) : Z := (st_linenum st + Z.of_nat (count_lf (remaining (st_stream st))))%Z.

Lemma next_nonblank_lf : forall fuel chunk s line s',
  0 < chunk -> next_nonblank fuel chunk s = Ok (Some line, s') ->
  count_lf (remaining s') + 1 <= count_lf (remaining s).
Proof.
  induction fuel as [|f IH]; intros chunk s line s' Hc H; [discriminate|].
  cbn [next_nonblank] in H. rewrite read_until_abs_correct in H by assumption. cbn [bind] in H.
  destruct (read_until_abs s) as [[b eof] s1] eqn:E.
  destruct (read_until_abs_exact _ _ _ _ E) as (_ & _ & _ & D & _).
  destruct (read_until_abs_shape _ _ _ _ E) as [Sh _].
  destruct eof; [discriminate|]. destruct (Sh eq_refl) as [l [Hl _]].
  assert (count_lf (remaining s1) + 1 <= count_lf (remaining s)) as Hone.
  { rewrite D, Hl, !count_lf_app. change (count_lf [lf]) with 1. lia. }
  destruct (nonempty (strip b)).
  - injection H as _ <-. exact Hone.
  - apply IH in H; [lia|assumption].
Qed.

Lemma read_header_lf : forall chunk valid st level name id opts line st1,
  0 < chunk -> read_header chunk valid st = HdrOk level name id opts line st1 ->
  line = st_linenum st /\ st_linenum st1 = (st_linenum st + 1)%Z /\ (lines_bound st1 <= lines_bound st)%Z.
Proof.
  intros chunk valid st level name id opts line st1 Hc H. unfold read_header in H.
  destruct (next_nonblank _ chunk (st_stream st)) as [[[header|] s1]|e] eqn:Hn; try discriminate H.
  apply next_nonblank_lf in Hn; [|assumption].
  destruct (negb (bends _ header)); [discriminate H|].
  destruct (parse_header valid _); [|discriminate H]. injection H as _ _ _ _ <- <-.
  unfold lines_bound. cbn [st_linenum st_stream]. repeat split; lia.
Qed.

Lemma read_content_lf : forall st len enc ind le keep p st',
  read_content st len enc ind le keep = COk p st' -> (lines_bound st' <= lines_bound st)%Z.
Proof.
  intros st len enc ind le keep p st' H. apply ReaderSpecFacts.read_content_ok_inv in H.
  destruct H as (_ & _ & _ & newline & lines & Hnl & Hsl & -> & Hraw & _).
  apply (nl_res_has_lf le _ _ newline) in Hnl.
  pose proof (split_lines_lf _ _ _ Hsl Hraw Hnl) as Hlen.
  destruct (ReaderSpecFacts.content_bytes_split st len) as [Hsplit _].
  unfold lines_bound, ReaderSpecFacts.state_after. cbn [st_linenum st_stream].
  rewrite Hsplit, count_lf_app. lia.
Qed.

Lemma lines_bound_ge : forall st, (st_linenum st <= lines_bound st)%Z.
Proof. intros st. unfold lines_bound. lia. Qed.

(* a parse error of an iteration is at a line <= the potential; a yielded section does not increase the potential *)
Lemma iter_step_parse_lf : forall orc chunk st valid encs prev l c,
  0 < chunk -> iter_step orc chunk st valid encs prev = SParse l c -> (l <= lines_bound st)%Z.
Proof.
  intros orc chunk st valid encs prev l c Hc H. unfold iter_step in H.
  destruct (read_header chunk valid st) as [|level name id opts line st1|l0 c0|e] eqn:Hh; try discriminate H.
  - destruct (read_header_lf _ _ _ _ _ _ _ _ _ Hc Hh) as (-> & Hl1 & Hb).
    pose proof (lines_bound_ge st) as G0. pose proof (lines_bound_ge st1) as G1.
    cbv beta zeta in H.
    repeat match type of H with
           | (match read_content ?a ?b ?c ?d ?e ?f with _ => _ end) = _ =>
               let E := fresh "Ec" in destruct (read_content a b c d e f) eqn:E; try discriminate H;
               try (apply ReaderSpecFacts.read_content_parse_line in E)
           | (match ?x with _ => _ end) = _ => destruct x eqn:?; try discriminate H
           | (if ?x then _ else _) = _ => destruct x eqn:?; try discriminate H
           end;
      injection H as <- _; first [lia | destruct Ec as [-> | ->]; lia].
  - injection H as <- _. apply ReaderSpecFacts.read_header_parse_line in Hh. subst l0. apply lines_bound_ge.
Qed.

Lemma iter_step_yield_lf : forall orc chunk st valid encs prev r st' valid' encs' prev',
  0 < chunk -> iter_step orc chunk st valid encs prev = SYield r st' valid' encs' prev' ->
  (lines_bound st' <= lines_bound st)%Z.
Proof.
  intros orc chunk st valid encs prev r st' valid' encs' prev' Hc H. unfold iter_step in H.
  destruct (read_header chunk valid st) as [|level name id opts line st1|l0 c0|e] eqn:Hh; try discriminate H.
  destruct (read_header_lf _ _ _ _ _ _ _ _ _ Hc Hh) as (_ & _ & Hb). clear Hh.
  cbv beta zeta in H.
  repeat match type of H with
         | (match read_content ?a ?b ?c ?d ?e ?f with _ => _ end) = _ =>
             let E := fresh "Ec" in destruct (read_content a b c d e f) eqn:E; try discriminate H;
             apply read_content_lf in E
         | (match ?x with _ => _ end) = _ => destruct x eqn:?; try discriminate H
         | (if ?x then _ else _) = _ => destruct x eqn:?; try discriminate H
         end;
    injection H as _ <- _ _ _; lia.
Qed.

Lemma iter_loop_lf : forall fuel orc chunk st valid encs prev acc l c,
  0 < chunk -> snd (iter_loop fuel orc chunk st valid encs prev acc) = TParse l c -> (l <= lines_bound st)%Z.
Proof.
  induction fuel as [|f IH]; intros orc chunk st valid encs prev acc l c Hc H; [discriminate H|].
  cbn [iter_loop] in H.
  destruct (iter_step orc chunk st valid encs prev) as [|r st' valid' encs' prev'|l0 c0|e] eqn:Hs;
    cbn [snd] in H; try discriminate H.
  - apply IH in H; [|assumption]. apply iter_step_yield_lf in Hs; [lia|assumption].
  - injection H as <- <-. eapply iter_step_parse_lf; eauto.
Qed.

(* C08, the sharper bound: the line number of a parse error is at most the number of LF bytes of the input *)
Theorem C08_linenum_lines_proof : forall orc chunk data l c,
  snd (read_all orc chunk data) = TParse l c -> (l <= Z.of_nat (count_lf data))%Z.
Proof.
  intros orc chunk data l c H. destruct chunk as [|k]; [rewrite read_all_chunk0 in H; discriminate H|].
  unfold read_all in H. apply iter_loop_lf in H; [|lia]. exact H.
Qed.
