(* Sx.v — generic S-expressions: the only data that crosses between the harness and the extracted model.
   The OCaml driver parses one line into [sx], calls [Entry.run], prints the resulting [sx]. *)
From Coq Require Import List Arith NArith ZArith Bool Strings.Byte.
From Coq Require Strings.String.
From DX Require Import Bytes.
Import ListNotations.
Import String.StringSyntax.
Local Open Scope string_scope.
Local Open Scope list_scope.

Inductive sx :=
| Sym (b : bytes)      (* bare word or decimal integer *)
| Hex (b : bytes)      (* raw bytes, written #6162.. on the wire *)
| Li (l : list sx).

Definition sym (s : String.string) : sx := Sym (B s).
Definition tagged (s : String.string) (args : list sx) : sx := Li (sym s :: args).

(* ---- encoders ---- *)
Definition sx_of_Z (z : Z) : sx := Sym (Z_to_dec z).
Definition sx_of_N (n : N) : sx := Sym (N_to_dec n).
Definition sx_of_nat (n : nat) : sx := Sym (nat_to_dec n).
Definition sx_of_bool (b : bool) : sx := if b then sym "true" else sym "false".
Definition sx_of_bytes (b : bytes) : sx := Hex b.
Definition N_to_be4 (n : N) : bytes :=
  [n_byte (N.div n 16777216 mod 256); n_byte (N.div n 65536 mod 256); n_byte (N.div n 256 mod 256); n_byte (n mod 256)]%N.
Definition sx_of_text (t : text) : sx := tagged "u" [Hex (flat_map N_to_be4 t)].
Definition sx_of_list {A} (f : A -> sx) (l : list A) : sx := Li (map f l).
Definition sx_of_option {A} (f : A -> sx) (o : option A) : sx :=
  match o with None => sym "none" | Some x => tagged "some" [f x] end.

(* ---- decoders ---- *)
Definition sx_sym (s : sx) : option bytes := match s with Sym b => Some b | _ => None end.
Definition sym_is (s : sx) (name : String.string) : bool :=
  match s with Sym b => beq b (B name) | _ => false end.

Definition dec_Z (b : bytes) : option Z :=
  match b with
  | [] => None
  | x :: t =>
      if byte_eqb x "-"%byte
      then (match t with [] => None | _ => if all_b is_digit t then Some (Z.opp (Z.of_N (dec_to_N t))) else None end)
      else if all_b is_digit b then Some (Z.of_N (dec_to_N b)) else None
  end.
Definition sx_Z (s : sx) : option Z := match s with Sym b => dec_Z b | _ => None end.
Definition sx_N (s : sx) : option N :=
  match sx_Z s with Some z => if Z.leb 0 z then Some (Z.to_N z) else None | None => None end.
Definition sx_nat (s : sx) : option nat := option_map N.to_nat (sx_N s).
Definition sx_bool (s : sx) : option bool :=
  if sym_is s "true" then Some true else if sym_is s "false" then Some false else None.
Definition sx_bytes (s : sx) : option bytes := match s with Hex b => Some b | _ => None end.

Fixpoint be4_to_text (l : bytes) : option text :=
  match l with
  | [] => Some []
  | a :: b :: c :: d :: t =>
      match be4_to_text t with
      | Some r => Some ((((byte_n a * 256 + byte_n b) * 256 + byte_n c) * 256 + byte_n d)%N :: r)
      | None => None
      end
  | _ => None
  end.
Definition sx_text (s : sx) : option text :=
  match s with
  | Li [t; Hex b] => if sym_is t "u" then be4_to_text b else None
  | _ => None
  end.

Fixpoint map_opt {A C} (f : A -> option C) (l : list A) : option (list C) :=
  match l with
  | [] => Some []
  | x :: t => match f x, map_opt f t with Some y, Some r => Some (y :: r) | _, _ => None end
  end.
Definition sx_list {A} (f : sx -> option A) (s : sx) : option (list A) :=
  match s with Li l => map_opt f l | _ => None end.
Definition sx_option {A} (f : sx -> option A) (s : sx) : option (option A) :=
  match s with
  | Sym _ => if sym_is s "none" then Some None else None
  | Li [t; x] => if sym_is t "some" then option_map Some (f x) else None
  | _ => None
  end.

Definition bad_case (why : String.string) : sx := tagged "bad-case" [sym why].
