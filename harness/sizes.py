"""Size boundaries harvested from the code under test: integer literals (and constant arithmetic) in the pydiffx sources, integer
attributes of its modules and classes at run time, and the usual buffer sizes. Generators place lengths / offsets at and around
these values, so that a block size, cache size or threshold introduced by a change is met by inputs that straddle it."""
import ast
import io
import os

import lib

_CACHE = None


def _const(node):
    if isinstance(node, ast.Constant) and isinstance(node.value, int) and not isinstance(node.value, bool):
        return node.value
    if isinstance(node, ast.BinOp):
        a, b = _const(node.left), _const(node.right)
        if a is None or b is None:
            return None
        try:
            if isinstance(node.op, ast.Mult):
                return a * b
            if isinstance(node.op, ast.Add):
                return a + b
            if isinstance(node.op, ast.Sub):
                return a - b
            if isinstance(node.op, ast.LShift) and 0 <= b < 40:
                return a << b
            if isinstance(node.op, ast.Pow) and 0 <= b < 40 and abs(a) <= 1024:
                return a ** b
        except Exception:
            return None
    return None


def harvested_sizes(lo=64, hi=8 * 1024 * 1024):
    global _CACHE
    if _CACHE is not None:
        return [n for n in _CACHE if lo <= n <= hi]
    found = {96, 4096, io.DEFAULT_BUFFER_SIZE, 65536, 1 << 20}
    root = os.path.join(lib.REPO, 'python', 'pydiffx')
    for dp, dn, fn in os.walk(root):
        if 'tests' in dp.split(os.sep):
            continue
        for f in fn:
            if f.endswith('.py'):
                try:
                    tree = ast.parse(open(os.path.join(dp, f), encoding='utf-8').read())
                except Exception:
                    continue
                for node in ast.walk(tree):
                    v = _const(node)
                    if v is not None:
                        found.add(v)
    import importlib
    for m in ('pydiffx.reader', 'pydiffx.writer', 'pydiffx.utils.text', 'pydiffx.utils.unified_diffs', 'pydiffx.dom.objects',
              'pydiffx.dom.reader', 'pydiffx.dom.writer', 'pydiffx.dom.properties', 'pydiffx.errors', 'pydiffx.options',
              'pydiffx.sections'):
        try:
            mod = importlib.import_module(m)
        except Exception:
            continue
        for name, val in list(vars(mod).items()):
            if isinstance(val, int) and not isinstance(val, bool):
                found.add(val)
            if isinstance(val, type) and getattr(val, '__module__', None) == m:
                for n2, v2 in list(vars(val).items()):
                    if isinstance(v2, int) and not isinstance(v2, bool):
                        found.add(v2)
    _CACHE = sorted(n for n in found if 2 <= n <= 64 * 1024 * 1024)
    return [n for n in _CACHE if lo <= n <= hi]


_IDS = None


def harvested_identifiers():
    """Parameter names of the functions and methods of pydiffx's reader, writer and object model (as the code stands now):
    candidates for option keys that mean something inside the implementation."""
    global _IDS
    if _IDS is not None:
        return _IDS
    import re
    names = set()
    root = os.path.join(lib.REPO, 'python', 'pydiffx')
    for rel in ('reader.py', 'writer.py', 'dom/reader.py', 'dom/writer.py', 'dom/objects.py', 'utils/text.py'):
        try:
            tree = ast.parse(open(os.path.join(root, rel), encoding='utf-8').read())
        except Exception:
            continue
        for node in ast.walk(tree):
            if isinstance(node, (ast.FunctionDef, ast.AsyncFunctionDef)):
                a = node.args
                for arg in list(a.args) + list(a.kwonlyargs) + ([a.vararg] if a.vararg else []) + ([a.kwarg] if a.kwarg else []):
                    names.add(arg.arg)
    _IDS = sorted(n for n in names if re.fullmatch(r'[A-Za-z][A-Za-z0-9_-]*', n))
    return _IDS


_WORDS = {}


def harvested_words(rel='integrations/pygments_lexer.py'):
    """Runs of letters and single spaces (4+ characters) inside the string literals of one pydiffx source file as it stands
    now (for the lexer: the words its patterns look for), docstrings excluded: candidates for content that means something
    to that code when it appears where it is not expected."""
    if rel in _WORDS:
        return _WORDS[rel]
    import re
    out = set()
    try:
        root = getattr(lib, 'DEV_TREE', None) or lib.REPO     # lib.DEV_TREE is set by harness/devrun.py only (development triage)
        tree = ast.parse(open(os.path.join(root, 'python', 'pydiffx', rel), encoding='utf-8').read())
    except Exception:
        tree = None
    if tree is not None:
        doc = set()
        for node in ast.walk(tree):
            if isinstance(node, (ast.FunctionDef, ast.ClassDef, ast.Module, ast.AsyncFunctionDef)):
                b = getattr(node, 'body', [])
                if b and isinstance(b[0], ast.Expr) and isinstance(getattr(b[0], 'value', None), ast.Constant):
                    doc.add(id(b[0].value))
        for node in ast.walk(tree):
            if isinstance(node, ast.Constant) and isinstance(node.value, (str, bytes)) and id(node) not in doc:
                t = node.value if isinstance(node.value, str) else node.value.decode('latin-1')
                for m in re.finditer(r'[A-Za-z]+(?: [A-Za-z]+)*', t):
                    if len(m.group(0)) >= 4:
                        out.add(m.group(0))
    _WORDS[rel] = sorted(out)[:80]
    return _WORDS[rel]
