(* SpecReaderComplete.v — the COMPLETENESS half of property C10 ("the reader accepts exactly the section orders
   the hierarchy allows"): every legal id sequence (SectionsSpec.spec_path) is the id sequence of a well-formed
   file of the spec AST (SpecReader.v) which the streaming reader model accepts, yielding exactly those ids.

   1. [reads_spec_small]: C03_reads_spec with the size premise weakened from "the whole file is at most
      sys.maxsize bytes" to "the CONTENT of every section is at most sys.maxsize bytes" (the only place where the
      reader compares anything with sys.maxsize is fp.read(min(length, sys.maxsize)) on a section's content;
      SpecReaderFacts.run_secs derives the per-section bound from the whole-file one).  This is what lets the
      completeness theorem hold for EVERY path, with no bound on its length.
   2. The canonical minimal section [csec a] of each of the nine ids and the canonical file [cfile w]; its
      well-formedness for every legal w, proved by induction over the path from a finite case analysis
      ([wf_csec]: 9 ids x (no predecessor + 9 predecessors), each case by computation) and the invariant that
      after the main header the encoding context is the constant [xc] (utf-8 declared by diffx, nothing below).
   3. [paths_complete], and [paths_exact] = soundness (SectionsFacts.C10_reader_sound) + completeness. *)
From Coq Require Import List Arith NArith ZArith Bool Strings.Byte Lia.
From Coq Require Strings.String.
From DX Require Import Bytes Res Codec Text Sections Header Stream Json Reader SectionsSpec
                       SpecReader SpecReaderBase SpecReaderFacts.
From DX Require HeaderFacts StreamFacts SectionsFacts ReaderSpecFacts.
From DXGen Require GenSections GenText.
Import ListNotations.
Import String.StringSyntax.
Local Open Scope string_scope.
Local Open Scope list_scope.

(* ================================================================================================ *)
(** * 1. C03_reads_spec with a per-section size premise *)

(* the content of every section is at most sys.maxsize bytes long *)
Fixpoint small_secs (x : ectx) (ss : list fsection) : Prop :=
  match ss with
  | [] => True
  | s :: t => (Z.of_nat (length (content_body x s)) <= sys_maxsize)%Z /\ small_secs (ectx_next x s) t
  end.

(* the premise of C03_reads_spec implies it *)
Lemma small_secs_of_total : forall crlf ss x,
  (Z.of_nat (length (render_secs crlf x ss)) <= sys_maxsize)%Z -> small_secs x ss.
Proof.
  intros crlf. induction ss as [|s ss IH]; intros x H; [exact I|].
  cbn [render_secs] in H. unfold sec_render in H. rewrite !app_length in H.
  cbn [small_secs]. split; [lia|]. apply IH. lia.
Qed.

Lemma run_secs_small : forall orc chunk crlf ss prev x st valid encs pl rest,
  0 < chunk -> Inv crlf prev x st valid encs pl -> wf_secs prev x ss = true -> Forall (oracle_ok_section orc) ss ->
  remaining (st_stream st) = render_secs crlf x ss ++ rest ->
  small_secs x ss ->
  exists st' valid' encs' pl',
    ReaderSpecFacts.run orc chunk st valid encs pl (records_secs (st_linenum st) ss) st' valid' encs' pl' /\
    remaining (st_stream st') = rest.
Proof.
  intros orc chunk crlf. induction ss as [|s ss IH]; intros prev x st valid encs pl rest Hc HI Hwf Horc Hrem Hsm.
  - exists st, valid, encs, pl. split; [constructor | exact Hrem].
  - cbn [wf_secs] in Hwf. apply andb_true_iff in Hwf. destruct Hwf as [Hws Hwss].
    inversion Horc as [|? ? Ho Hos]; subst.
    cbn [render_secs] in Hrem. rewrite <- app_assoc in Hrem.
    cbn [small_secs] in Hsm. destruct Hsm as [Hm1 Hm2].
    destruct (step_section orc chunk crlf prev x s st valid encs pl _ Hc HI Hws Ho Hrem Hm1)
      as (st1 & v1 & e1 & p1 & Hstep & HI1 & Hrem1 & Hline1).
    destruct (IH _ _ st1 v1 e1 p1 rest Hc HI1 Hwss Hos Hrem1 Hm2) as (st' & v' & e' & p' & Hrun & Hrem').
    exists st', v', e', p'. split; [|exact Hrem'].
    cbn [records_secs]. rewrite <- Hline1. econstructor; [exact Hstep | exact Hrun].
Qed.

Theorem reads_spec_small : forall f orc chunk,
  wf_file f = true -> oracle_ok_file orc f -> 0 < chunk ->
  small_secs ectx0 (ff_sections f) ->
  read_all orc chunk (render_file f) = (spec_records f, TEnd).
Proof.
  intros f orc chunk Hwf Horc Hc Hsm.
  unfold wf_file in Hwf. apply andb_true_iff in Hwf. destruct Hwf as [Hsecs Htrail].
  set (data := render_file f) in *.
  assert (HI : Inv (ff_crlf f) None ectx0 (ReaderSpecFacts.init_state data) [GenSections.sec_main] [None] 0)
    by (constructor; reflexivity).
  destruct (run_secs_small orc chunk (ff_crlf f) (ff_sections f) None ectx0 _ _ _ _ (render_blanks (ff_trailing f))
              Hc HI Hsecs Horc eq_refl Hsm) as (st' & v' & e' & p' & Hrun & Hrem').
  cbn [ReaderSpecFacts.init_state st_linenum] in Hrun. fold (spec_records f) in Hrun.
  destruct (ReaderSpecFacts.run_progress _ _ _ _ _ _ _ _ _ _ _ Hc Hrun (StreamFacts.wf_initial data)) as (W & D & P).
  set (rs := spec_records f) in *.
  assert (Hlen : length rs <= length data).
  { unfold StreamFacts.wf_rstate, StreamFacts.wf_stream in W.
    unfold ReaderSpecFacts.sdata, ReaderSpecFacts.spos, ReaderSpecFacts.init_state in *. cbn [st_stream s_data s_pos] in *.
    rewrite D in W. lia. }
  unfold read_all. fold (ReaderSpecFacts.init_state data).
  replace (S (length data)) with (length rs + S (length data - length rs)) by lia.
  rewrite (ReaderSpecFacts.iter_loop_run _ _ _ _ _ _ _ _ _ _ _ Hrun).
  cbn [iter_loop]. rewrite (iter_step_trailing orc chunk st' v' e' p' (ff_trailing f) Hc Htrail Hrem').
  rewrite app_nil_r, HeaderFacts.frev_is_rev, rev_involutive. reflexivity.
Qed.

(* ================================================================================================ *)
(** * 2. The canonical file of an id sequence *)

Definition atext (s : String.string) : text := map byte_n (B s).
Definition one_line (l : text) : tcontent := {| tc_lines := [l]; tc_kind := LUnix; tc_bom := false |}.

(* one minimal section per id:
     diffx                 version=1.0, encoding=utf-8
     .change  ..file       no options
     .preamble ..preamble  the text line "x" (utf-8, inherited from diffx), length=2, line_endings=unix declared
     .meta ..meta ...meta  the text line "{}" denoting the empty object, length=3, line endings detected
     ...diff               the bytes "x\n", length=2, line endings detected *)
Definition csec (a : sid) : fsection :=
  match a with
  | Main =>
      {| fs_id := Main; fs_opts := [(B "version", B "1.0"); (B "encoding", B "utf-8")]; fs_blank := [];
         fs_content := None |}
  | Change | File =>
      {| fs_id := a; fs_opts := []; fs_blank := []; fs_content := None |}
  | MainPreamble | ChangePreamble =>
      {| fs_id := a; fs_opts := [(B "length", B "2"); (B "line_endings", B "unix")]; fs_blank := [];
         fs_content := Some (FText (one_line (atext "x"))) |}
  | MainMeta | ChangeMeta | FileMeta =>
      {| fs_id := a; fs_opts := [(B "length", B "3")]; fs_blank := [];
         fs_content := Some (FMeta (one_line (atext "{}")) (JObj [])) |}
  | FileDiff =>
      {| fs_id := FileDiff; fs_opts := [(B "length", B "2")]; fs_blank := [];
         fs_content := Some (FDiff (B "x" ++ [x0a]) LUnix) |}
  end.

(* LF header lines, no blank lines *)
Definition cfile (w : list sid) : ffile :=
  {| ff_crlf := false; ff_sections := map csec w; ff_trailing := [] |}.

(* json.loads("{}\n") = {} : the only question the reader asks on a canonical file *)
Definition corc : oracle := [ (oracle_key_text (atext "{}" ++ [10%N]), LoadsOk (JObj [])) ].

Lemma csec_id : forall a, fs_id (csec a) = a.
Proof. destruct a; reflexivity. Qed.

Lemma cfile_ids : forall w, map fs_id (ff_sections (cfile w)) = w.
Proof.
  intro w. unfold cfile. cbn [ff_sections]. induction w as [|a w IH]; [reflexivity|].
  cbn [map]. rewrite csec_id, IH. reflexivity.
Qed.

(* ---- the encoding context: utf-8 declared by diffx, nothing declared below; it never changes ---- *)
Definition xc : ectx := {| ex_main := Some (B "utf-8"); ex_change := None; ex_file := None |}.

Lemma ectx_next_main : forall x, ectx_next x (csec Main) = xc.
Proof. intro x. vm_compute. reflexivity. Qed.

Lemma ectx_next_csec : forall a, ectx_next xc (csec a) = xc.
Proof. destruct a; vm_compute; reflexivity. Qed.

(* in that context utf-8 is in force in every container *)
Lemma inherited_xc : forall d, inherited xc d = Some (B "utf-8").
Proof. intros [|[|d]]; reflexivity. Qed.

(* ---- well-formedness of a canonical section: the order condition and nothing else ---- *)
Lemma wf_csec_first : forall x, wf_section None x (csec Main) = true.
Proof. intro x. vm_compute. reflexivity. Qed.

Lemma wf_csec : forall p a, wf_section (Some p) xc (csec a) = may_follow p a.
Proof. destruct p, a; vm_compute; reflexivity. Qed.

(* a section that is not first is never well-formed as the first one, whatever its content: order_ok *)
Lemma wf_csec_none : forall x a, a <> Main -> wf_section None x (csec a) = false.
Proof.
  intros x a Ha. unfold wf_section. rewrite csec_id. unfold order_ok.
  destruct a; try reflexivity. contradiction Ha; reflexivity.
Qed.

Lemma wf_secs_csec : forall t p, wf_secs (Some p) xc (map csec t) = ok_from p t.
Proof.
  induction t as [|a t IH]; intro p; [reflexivity|].
  cbn [map wf_secs ok_by]. rewrite wf_csec, csec_id, ectx_next_csec, IH. reflexivity.
Qed.

(* the canonical file is well-formed EXACTLY when the id sequence is a legal path (the empty sequence gives the
   empty file) *)
Lemma wf_cfile_iff : forall w, wf_file (cfile w) = true <-> spec_path w.
Proof.
  intros [|a t]; [split; [intros _; exact I | reflexivity]|].
  unfold wf_file, cfile. cbn [ff_sections ff_trailing map wf_secs forallb spec_path].
  rewrite andb_true_r. split.
  - intro H. apply andb_true_iff in H. destruct H as [H1 H2].
    destruct (sid_eqb a Main) eqn:E.
    + apply sid_eqb_eq in E. subst a. split; [reflexivity|].
      rewrite csec_id, ectx_next_main, wf_secs_csec in H2. exact H2.
    + rewrite wf_csec_none in H1; [discriminate|]. intros ->. discriminate E.
  - intros [-> H]. rewrite wf_csec_first, csec_id, ectx_next_main, wf_secs_csec, H. reflexivity.
Qed.

Lemma wf_cfile : forall w, spec_path w -> wf_file (cfile w) = true.
Proof. intros w H. apply wf_cfile_iff. exact H. Qed.

(* ---- the oracle ---- *)
Lemma oracle_csec : forall a, oracle_ok_section corc (csec a).
Proof. destruct a; vm_compute; try reflexivity; exact I. Qed.

Lemma oracle_cfile : forall w, oracle_ok_file corc (cfile w).
Proof.
  intro w. unfold oracle_ok_file, cfile. cbn [ff_sections].
  induction w as [|a w IH]; cbn [map]; constructor; [apply oracle_csec | exact IH].
Qed.

(* ---- sizes: a canonical section has at most 3 content bytes ---- *)
Lemma content_csec_small : forall a, (Z.of_nat (length (content_body xc (csec a))) <= sys_maxsize)%Z.
Proof. destruct a; vm_compute; discriminate. Qed.

Lemma content_main_small : forall x, (Z.of_nat (length (content_body x (csec Main))) <= sys_maxsize)%Z.
Proof. intro x. vm_compute. discriminate. Qed.

Lemma small_csecs : forall t, small_secs xc (map csec t).
Proof.
  induction t as [|a t IH]; [exact I|]. cbn [map small_secs]. split; [apply content_csec_small|].
  rewrite ectx_next_csec. exact IH.
Qed.

Lemma small_cfile : forall w, spec_path w -> small_secs ectx0 (ff_sections (cfile w)).
Proof.
  intros [|a t] H; [exact I|]. destruct H as [-> _]. unfold cfile. cbn [ff_sections map small_secs].
  split; [apply content_main_small|]. rewrite ectx_next_main. apply small_csecs.
Qed.

(* the whole rendering is at most 64 bytes per section (not needed for the theorems below; it relates the
   per-section premise to the whole-file premise of C03_reads_spec) *)
Lemma sec_render_csec_len : forall a, length (sec_render false xc (csec a)) <= 64.
Proof. destruct a; vm_compute; lia. Qed.

Lemma render_csecs_len : forall t, length (render_secs false xc (map csec t)) <= 64 * length t.
Proof.
  induction t as [|a t IH]; [cbn; lia|].
  cbn [map render_secs]. rewrite app_length, ectx_next_csec. pose proof (sec_render_csec_len a).
  cbn [length]. lia.
Qed.

Lemma render_cfile_len : forall w, spec_path w -> length (render_file (cfile w)) <= 64 * length w.
Proof.
  intros [|a t] H; [cbn; lia|]. destruct H as [-> _].
  unfold render_file, cfile. cbn [ff_crlf ff_sections ff_trailing map render_secs render_blanks concat].
  rewrite app_nil_r, app_length, ectx_next_main.
  pose proof (render_csecs_len t). pose proof (sec_render_csec_len Main).
  change (sec_render false ectx0 (csec Main)) with (sec_render false xc (csec Main)).
  cbn [length]. lia.
Qed.

(* ---- the ids of the specified records ---- *)
Lemma records_ids : forall ss line, map r_id (records_secs line ss) = map sid_bytes (map fs_id ss).
Proof.
  induction ss as [|s ss IH]; intro line; [reflexivity|].
  cbn [records_secs map]. rewrite IH. reflexivity.
Qed.

Lemma spec_records_ids : forall f, map r_id (spec_records f) = map sid_bytes (map fs_id (ff_sections f)).
Proof. intro f. apply records_ids. Qed.

(* ================================================================================================ *)
(** * 3. Completeness and exactness *)

(* the reader accepts the canonical file of every legal path: it yields the specified records, whose ids are
   the path, and ends normally; for every positive chunk size; no bound on the length of the path *)
Theorem reads_cfile : forall w chunk, spec_path w -> 0 < chunk ->
  read_all corc chunk (render_file (cfile w)) = (spec_records (cfile w), TEnd) /\
  map r_id (spec_records (cfile w)) = map sid_bytes w.
Proof.
  intros w chunk Hp Hc. split.
  - apply reads_spec_small; [apply wf_cfile; exact Hp | apply oracle_cfile | exact Hc | apply small_cfile; exact Hp].
  - rewrite spec_records_ids, cfile_ids. reflexivity.
Qed.

Theorem paths_complete : forall w : list sid, spec_path w ->
  exists f orc,
    wf_file f = true /\ oracle_ok_file orc f /\ map fs_id (ff_sections f) = w /\
    forall chunk, 0 < chunk ->
      exists rs, read_all orc chunk (render_file f) = (rs, TEnd) /\ map r_id rs = map sid_bytes w.
Proof.
  intros w Hp. exists (cfile w), corc.
  split; [apply wf_cfile; exact Hp|]. split; [apply oracle_cfile|]. split; [apply cfile_ids|].
  intros chunk Hc. exists (spec_records (cfile w)). apply reads_cfile; assumption.
Qed.

Lemma map_sid_bytes_inj : forall w w', map sid_bytes w = map sid_bytes w' -> w = w'.
Proof.
  induction w as [|a w IH]; intros [|b w'] H; try reflexivity; try discriminate H.
  cbn [map] in H. injection H as H1 H2. apply sid_bytes_inj in H1. apply IH in H2. subst. reflexivity.
Qed.

(* the id sequences of the runs of the reader that end normally are exactly the legal paths *)
Theorem paths_exact : forall w : list sid,
  spec_path w <->
  exists orc chunk data rs, 0 < chunk /\ read_all orc chunk data = (rs, TEnd) /\ map r_id rs = map sid_bytes w.
Proof.
  intro w. split.
  - intro Hp. exists corc, 1, (render_file (cfile w)), (spec_records (cfile w)).
    split; [lia|]. apply reads_cfile; [exact Hp | lia].
  - intros (orc & chunk & data & rs & _ & Hr & Hids).
    destruct (SectionsFacts.C10_reader_sound _ _ _ _ _ Hr) as (w' & Hw' & Hp).
    rewrite Hids in Hw'. apply map_sid_bytes_inj in Hw'. subst w'. exact Hp.
Qed.

(* the same for the runs that yield the ids and then stop for ANY reason (end of data or an error): nothing is
   gained by allowing errors *)
Theorem paths_exact_any_end : forall w : list sid,
  spec_path w <->
  exists orc chunk data rs t, 0 < chunk /\ read_all orc chunk data = (rs, t) /\ map r_id rs = map sid_bytes w.
Proof.
  intro w. split.
  - intro Hp. apply paths_exact in Hp. destruct Hp as (orc & chunk & data & rs & Hc & Hr & Hids).
    exists orc, chunk, data, rs, TEnd. auto.
  - intros (orc & chunk & data & rs & t & _ & Hr & Hids).
    destruct (SectionsFacts.C10_reader_sound _ _ _ _ _ Hr) as (w' & Hw' & Hp).
    rewrite Hids in Hw'. apply map_sid_bytes_inj in Hw'. subst w'. exact Hp.
Qed.

(* ================================================================================================ *)
(** * Example paths *)

(* all nine ids *)
Definition ex_all : list sid :=
  [Main; MainPreamble; MainMeta; Change; ChangePreamble; ChangeMeta; File; FileMeta; FileDiff].
(* two changes with files, and one .change without a ..file (legal in the state tree: "..meta -> .change") *)
Definition ex_changes : list sid := [Main; Change; File; FileMeta; FileDiff; Change; ChangeMeta; Change].

Definition lf : bytes := [x0a].
Definition ex_all_bytes : bytes :=
  B "#diffx: version=1.0, encoding=utf-8" ++ lf ++
  B "#.preamble: length=2, line_endings=unix" ++ lf ++ B "x" ++ lf ++
  B "#.meta: length=3" ++ lf ++ B "{}" ++ lf ++
  B "#.change:" ++ lf ++
  B "#..preamble: length=2, line_endings=unix" ++ lf ++ B "x" ++ lf ++
  B "#..meta: length=3" ++ lf ++ B "{}" ++ lf ++
  B "#..file:" ++ lf ++
  B "#...meta: length=3" ++ lf ++ B "{}" ++ lf ++
  B "#...diff: length=2" ++ lf ++ B "x" ++ lf.
Definition ex_changes_bytes : bytes :=
  B "#diffx: version=1.0, encoding=utf-8" ++ lf ++
  B "#.change:" ++ lf ++
  B "#..file:" ++ lf ++
  B "#...meta: length=3" ++ lf ++ B "{}" ++ lf ++
  B "#...diff: length=2" ++ lf ++ B "x" ++ lf ++
  B "#.change:" ++ lf ++
  B "#..meta: length=3" ++ lf ++ B "{}" ++ lf ++
  B "#.change:" ++ lf.
