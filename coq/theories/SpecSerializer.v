(* SpecSerializer.v — an INDEPENDENT serializer for DiffX files, written from the specification text
   (docs/spec/section-format.rst, sections.rst, encodings.rst), for property C02 (last clause):
   "the bytes equal, byte for byte, what an independent serializer derived from the specification
    produces for the same calls".

   It is NOT a transcription of pydiffx/writer.py (Writer.v):
     * no state object, no stack of encodings, no "previous section" variable: the call list is walked once and
       the only thing carried along is the list of containers opened so far (the nesting history);
     * the section id of a content section comes from its POSITION (how deep the innermost open container is);
     * the effective encoding of a preamble / metadata section comes from its POSITION: its own [encoding] option
       if given, else that of the nearest enclosing file / change / main section that declares one
       ([Encodings.spec_effective], the by-tree-position definition of C04; encodings.rst rule 3);
       diff sections never inherit (rule 5); a metadata section with NO effective encoding (nothing declared from
       the main section down to the section itself) is the canonical JSON text as ASCII bytes — json_dump's
       output is pure ASCII — terminated by the ASCII LF, under a header without [encoding];
     * the header is rendered by the SPEC-side renderer [HeaderFacts.render_header] (section-format.rst, "Section
       Headers") from the options that are present, sorted by key, and [length] is the byte count of the content
       that follows;
     * the content is built in the order the specification demands: encode, terminate with the BOM-free encoded
       newline of the declared / detected kind, then (preambles) prefix every line with ASCII spaces.

   Library helpers used as specification vocabulary (each is verified on its own: C15/C16/C02_json_sorted):
     Text.py_encode (str.encode), Text.get_newline_for_type, Text.guess_line_endings_text/bytes ("read up to the
     first LF and see whether it is preceded by CR"), Text.split_lines, Json.json_dump (sorted keys, 4 spaces),
     Bytes.Z_to_dec (decimal), Bytes.isort / bytes_leb (sorting by key). *)
From Coq Require Import List Arith NArith ZArith Bool Strings.Byte.
From Coq Require Strings.String.
From DX Require Import Bytes Res Codec Text Sections Header Json Writer.
From DX Require HeaderFacts Encodings.
Import ListNotations.
Import String.StringSyntax.
Local Open Scope string_scope.
Local Open Scope list_scope.

Definition LFb : bytes := [x0a].

Definition obind {A C} (o : option A) (f : A -> option C) : option C :=
  match o with Some a => f a | None => None end.
Notation "'olet' x <- o ; k" := (obind o (fun x => k)) (at level 200, x pattern, o at level 100, k at level 200).

(* ------------------------------------------------------------------------------------------------ *)
(* 1. the argument domain: how a dynamically typed argument is read                                   *)

Definition ascii_cp (c : N) : bool := N.ltb c 128.

(* an optional ASCII string: None (absent) or a non-empty str of ASCII characters, as bytes *)
Definition str_arg (v : wv) : option (option bytes) :=
  match v with
  | WNone => Some None
  | WStr t => if forallb ascii_cp t && nonempty t then Some (Some (map n_byte t)) else None
  | _ => None
  end.

(* an optional string that must be one of a fixed set *)
Definition choice_arg (allowed : list bytes) (v : wv) : option (option bytes) :=
  olet o <- str_arg v;
  match o with
  | None => Some None
  | Some x => if mem beq x allowed then Some (Some x) else None
  end.

(* the value sets the specification lists *)
Definition spec_versions : list bytes := [B "1.0"].                           (* sections.rst, "version" *)
Definition spec_line_endings : list bytes := [B "dos"; B "unix"].             (* section-format.rst, "line_endings" *)
Definition spec_mimetypes : list bytes := [B "text/markdown"; B "text/plain"]. (* section-format.rst, "mimetype" *)
Definition spec_meta_formats : list bytes := [B "json"].                      (* section-format.rst, "format" *)
Definition spec_diff_types : list bytes := [B "binary"; B "text"].            (* sections.rst, diff "type" *)
Definition spec_default_indent : nat := 4. (* "A suggested value would be 4" *)

(* write_preamble's indent: omitted -> the suggested value; None -> no indentation; an int >= 0 *)
Definition spec_indent_arg (ind : option wv) : option (option nat) :=
  match ind with
  | None => Some (Some spec_default_indent)
  | Some WNone => Some None
  | Some (WInt k) => if Z.leb 0 k then Some (Some (Z.to_nat k)) else None
  | Some _ => None
  end.

(* write_meta's format: omitted -> json; else it must be a supported format *)
Definition format_arg (fmt : option wv) : option bytes :=
  match fmt with
  | None => Some (B "json")
  | Some v => olet o <- choice_arg spec_meta_formats v; o
  end.

(* ------------------------------------------------------------------------------------------------ *)
(* 2. section headers (section-format.rst, "Section Headers" / "Header Options")                      *)

(* the options that are present ... *)
Definition opt_pairs (l : list (bytes * option bytes)) : list (bytes * bytes) :=
  flat_map (fun kv => match snd kv with Some v => [(fst kv, v)] | None => [] end) l.
(* ... in alphabetical order of their keys *)
Definition spec_pairs (l : list (bytes * option bytes)) : list (bytes * bytes) :=
  isort (fun a b => bytes_leb (fst a) (fst b)) (opt_pairs l).

(* "#" dots name ":" [" " k=v ", " k=v ...] LF *)
Definition header (dots : nat) (name : bytes) (opts : list (bytes * option bytes)) : bytes :=
  HeaderFacts.render_header dots name (spec_pairs opts) ++ LFb.

(* integers in decimal *)
Definition dec (n : nat) : bytes := Z_to_dec (Z.of_nat n).

(* a container section: only the encoding option *)
Definition container_section (dots : nat) (name : bytes) (own : option bytes) : bytes :=
  header dots name [(B "encoding", own)].

(* a content section: the common content options (encoding, length, line_endings; indent for preambles),
   the section's own option, then exactly [length] bytes of content *)
Definition content_section (dots : nat) (name : bytes) (own : option bytes) (ind : option nat)
           (le : option bytes) (extra : bytes * option bytes) (body : bytes) : bytes :=
  header dots name [(B "encoding", own); (B "indent", option_map dec ind); (B "length", Some (dec (length body)));
                    (B "line_endings", le); extra]
  ++ body.

(* ------------------------------------------------------------------------------------------------ *)
(* 3. content                                                                                         *)

(* "must end in a newline, in the section's encoding": append it if it is missing *)
Definition terminate (nl c : bytes) : bytes := if bends nl c then c else c ++ nl.

(* "Indentation must be ASCII spaces (0x20), applied after the content is encoded": every line of the ENCODED,
   terminated content (split on the ENCODED newline, ends kept) gets [k] spaces in front *)
Definition indent_lines (k : nat) (nl c : bytes) : option bytes :=
  match split_lines c nl true with
  | Ok ls => Some (concat (map (fun l => repeat_b x20 k ++ l) ls))
  | Err _ => None
  end.

(* text content: encode in [eb]; terminate with the BOM-free newline of kind [kind] in [eb]; indent *)
Definition text_body (eb kind : bytes) (t : text) (ind : option nat) : option bytes :=
  match get_newline_for_type kind (Some eb), py_encode t eb with
  | Ok nl, Ok cb =>
      match ind with
      | None => Some (terminate nl cb)
      | Some k => indent_lines k nl (terminate nl cb)
      end
  | _, _ => None
  end.

(* diff content: the bytes as given, terminated with the newline in the section's OWN encoding (ASCII if none) *)
Definition diff_body (own : option bytes) (kind : bytes) (b : bytes) : option bytes :=
  match get_newline_for_type kind own with
  | Ok nl => Some (terminate nl b)
  | Err _ => None
  end.

(* the kind of line endings: the declared one, else detected on the first line *)
Definition line_kind_text (le : wv) (t : text) : option bytes :=
  olet o <- choice_arg spec_line_endings le;
  match o with
  | Some k => Some k
  | None => Some (fst (guess_line_endings_text t))
  end.

Definition line_kind_bytes (le : wv) (own : option bytes) (b : bytes) : option bytes :=
  olet o <- choice_arg spec_line_endings le;
  match o with
  | Some k => Some k
  | None => match guess_line_endings_bytes b own with Ok p => Some (fst p) | Err _ => None end
  end.

(* ------------------------------------------------------------------------------------------------ *)
(* 4. positions: the containers opened so far                                                         *)

Definition hist := Encodings.history bytes.

(* 0: directly under the main section; 1: inside a change; 2: inside a file *)
Definition depth (h : hist) : nat := Encodings.depth h.

(* encodings.rst rule 3/4: own option, else the nearest enclosing container that declares one (by position) *)
Definition effective (e0 : option bytes) (h : hist) (own : option bytes) : option bytes :=
  match own with
  | Some e => Some e
  | None => Encodings.spec_effective e0 h
  end.

(* ------------------------------------------------------------------------------------------------ *)
(* 5. one call at a position: the bytes of its section and the position after it                      *)

Definition spec_call (e0 : option bytes) (h : hist) (c : call) : option (bytes * hist) :=
  let d := depth h in
  match c with
  | NewChange e =>
      (* "#.change:" anywhere below the main section; closes the open change and file *)
      olet own <- str_arg e;
      Some (container_section 1 (B "change") own, h ++ [Encodings.TChange own])
  | NewFile e =>
      (* "#..file:" only inside a change *)
      if Nat.leb 1 d then
        olet own <- str_arg e;
        Some (container_section 2 (B "file") own, h ++ [Encodings.TFile own])
      else None
  | WritePreamble (WStr t) enc ind le mt =>
      (* ".preamble" under main, "..preamble" in a change; no preamble in a file *)
      if Nat.leb d 1 then
        olet own <- str_arg enc;
        olet k <- spec_indent_arg ind;
        olet mime <- choice_arg spec_mimetypes mt;
        olet kind <- line_kind_text le t;
        olet eb <- effective e0 h own;
        if is_nil t then None else
        olet body <- text_body eb kind t k;
        Some (content_section (S d) (B "preamble") own k (Some kind) (B "mimetype", mime) body, h)
      else None
  | WritePreamble _ _ _ _ _ => None
  | WriteMeta (WDict (JObj kv)) enc fmt =>
      (* ".meta", "..meta", "...meta": canonical JSON text, LF-terminated; no line_endings option *)
      olet own <- str_arg enc;
      olet f <- format_arg fmt;
      if is_nil kv then None else
      match json_dump (JObj kv) with
      | Ok d0 =>
          match effective e0 h own with
          | Some eb =>
              olet body <- text_body eb (B "unix") (map byte_n d0) None;
              Some (content_section (S d) (B "meta") own None None (B "format", Some f) body, h)
          | None =>
              (* no encoding in force: the (pure ASCII) canonical JSON as bytes, ASCII LF; no encoding option *)
              Some (content_section (S d) (B "meta") own None None (B "format", Some f) (terminate LFb d0), h)
          end
      | Err _ => None
      end
  | WriteMeta _ _ _ => None
  | WriteDiff (WBytes b) dt enc le =>
      (* "...diff" only inside a file; never inherits an encoding *)
      if Nat.eqb d 2 then
        olet own <- str_arg enc;
        olet ty <- choice_arg spec_diff_types dt;
        olet kind <- line_kind_bytes le own b;
        if is_nil b then None else
        olet body <- diff_body own kind b;
        Some (content_section 3 (B "diff") own None (Some kind) (B "type", ty) body, h)
      else None
  | WriteDiff _ _ _ _ => None
  end.

(* the walk over the call list *)
Fixpoint walk (e0 : option bytes) (h : hist) (cs : list call) : option bytes :=
  match cs with
  | [] => Some []
  | c :: t =>
      olet p <- spec_call e0 h c;
      olet rest <- walk e0 (snd p) t;
      Some (fst p ++ rest)
  end.

(* DiffXWriter(encoding, version) followed by the calls: the whole file.
   [None]: an argument is outside the domain described above or a section has no legal id at its position. *)
Definition spec_serialize (enc0 ver : wv) (cs : list call) : option bytes :=
  olet e0 <- str_arg enc0;
  olet vo <- choice_arg spec_versions ver;
  olet v <- vo;
  olet rest <- walk e0 [] cs;
  Some (header 0 (B "diffx") [(B "encoding", e0); (B "version", Some v)] ++ rest).
