(* SpecSerializerFacts.v — C02, last clause: the bytes the writer model (Writer.v) emits are, byte for byte, what
   the independent serializer [SpecSerializer.spec_serialize] (written from the specification text) produces for
   the same calls.

   Structure:
     A. argument views: what [str_arg] / [choice_arg] / [spec_indent_arg] say about arguments in the domain
     B. headers: the writer's header is the spec-side rendering of the present options sorted by key
        (no bound on the size of integers: unlike C02_header_is_spec_rendering, nothing is read back here)
     C. positions: the invariant [Pos] relating a writer state to the nesting history of the spec's walk
        (level from the stack depth, effective encoding from C04)
     D. per-call lemmas: container, preamble, metadata, diff
     E. the walk, the constructor, the theorem *)
From Coq Require Import List Arith NArith ZArith Bool Strings.Byte Lia ZifyBool.
From Coq Require Import Sorting.Sorted Sorting.Permutation.
From Coq Require Strings.String.
From DX Require Import Bytes Res Codec Text Sections Header Json Writer.
From DX Require HeaderFacts TextFacts WriterFacts Encodings.
From DX Require Import WriterCanonFacts RoundTripBase RoundTripContent RoundTripSim RoundTrip.
From DX Require Import SpecSerializer.
From DXGen Require GenSections GenText GenCodecs.
Import ListNotations.
Import String.StringSyntax.
Local Open Scope string_scope.
Local Open Scope list_scope.

(* ================================================================================================ *)
(** * A. argument views *)

(* a codec name as the writer holds it *)
Definition inj (eb : bytes) : wv := WStr (ascii_text eb).
(* the bytes an option value is rendered as; None: the option is absent *)
Definition sval (v : wv) : option bytes := match v with WNone => None | _ => Some (val_bytes v) end.

Lemma ascii_text_forallb : forall b, Forall ascii_byte b -> forallb ascii_cp (ascii_text b) = true.
Proof.
  induction b as [|x b IH]; intros H; [reflexivity|]. inversion H as [|? ? Hx Hb]; subst.
  cbn [ascii_text map forallb]. change (map byte_n b) with (ascii_text b). rewrite (IH Hb), andb_true_r.
  unfold ascii_cp. apply N.ltb_lt. exact Hx.
Qed.

Lemma str_arg_ascii : forall x, Forall ascii_byte x -> x <> [] -> str_arg (WStr (ascii_text x)) = Some (Some x).
Proof.
  intros x Ha Hne. cbn [str_arg]. rewrite (ascii_text_forallb x Ha).
  assert (Hn : nonempty (ascii_text x) = true) by (destruct x; [congruence|reflexivity]).
  rewrite Hn. cbn [andb]. rewrite map_n_byte_ascii_text. reflexivity.
Qed.

(* the values the header renderer is defined on (no size bound: nothing is read back here) *)
Inductive rend_value : wv -> Prop :=
| RV_none : rend_value WNone
| RV_int z : rend_value (WInt z)
| RV_str vb : HeaderFacts.spec_val vb -> rend_value (WStr (ascii_text vb)).
Definition rend_opt (kv : bytes * wv) : Prop := HeaderFacts.spec_key (fst kv) /\ rend_value (snd kv).

Lemma good_rend : forall v, good_value v -> rend_value v.
Proof. intros v [|z _|vb H]; constructor; assumption. Qed.

(* encodings: None or a catalogue spelling of a modelled codec *)
Lemma enc_ok_arg : forall v, enc_ok v ->
  exists own, str_arg v = Some own /\ Encodings.wdecl v = option_map inj own /\ sval v = own /\
              v = match own with Some eb => inj eb | None => WNone end /\
              (forall eb, own = Some eb -> exists canon c, lookup_codec eb = LOk canon c).
Proof.
  intros v [->|(eb & canon & c & -> & H)].
  - exists None. repeat split; try reflexivity. intros eb E. discriminate E.
  - destruct (spelling_facts _ _ _ H) as (_ & _ & Hne & Hv).
    exists (Some eb). split; [apply str_arg_ascii; [apply spec_val_ascii; exact Hv|exact Hne]|].
    split.
    + unfold Encodings.wdecl. cbn [wv_truthy]. destruct eb; [congruence|reflexivity].
    + split; [cbn [sval val_bytes]; rewrite map_n_byte_ascii_text; reflexivity|].
      split; [reflexivity|]. intros eb' E. injection E as <-. eauto.
Qed.

Lemma enc_ok_rend : forall v, enc_ok v -> rend_value v.
Proof. intros v H. apply good_rend, enc_ok_good_value, H. Qed.

(* members of the writer's choice sets *)
Lemma choice_arg_member : forall set x, In x set -> In x choice_values ->
  choice_arg set (WStr (ascii_text x)) = Some (Some x) /\ sval (WStr (ascii_text x)) = Some x /\
  rend_value (WStr (ascii_text x)).
Proof.
  intros set x Hin Hc. destruct (choice_values_spec x Hc) as (Hv & Hg & _).
  split; [|split; [cbn [sval val_bytes]; rewrite map_n_byte_ascii_text; reflexivity|apply good_rend; exact Hg]].
  unfold choice_arg. rewrite str_arg_ascii; [|apply spec_val_ascii; exact Hv|apply Hv]. cbn [obind].
  replace (mem beq x set) with true; [reflexivity|]. symmetry. apply (proj2 (HeaderFacts.in_ids_In x set)). exact Hin.
Qed.

(* a choice argument the writer accepted: None or a member *)
Lemma choice_arg_accepted : forall v set, (forall x, In x set -> In x choice_values) ->
  match v with WNone => Ok true | v' => in_strset v' set end = Ok true ->
  choice_arg set v = Some (sval v) /\ rend_value v.
Proof.
  intros v set Hsub H. destruct (choice_good_exact v set Hsub H) as (_ & _ & [->|(x & Hx & ->)]).
  - split; [reflexivity|constructor].
  - destruct (choice_arg_member set x Hx (Hsub x Hx)) as (H1 & H2 & H3). rewrite H1, H2. split; [reflexivity|exact H3].
Qed.

(* the specification's value sets are the library's (generated tables; re-checked when they are regenerated) *)
Lemma spec_sets :
  spec_versions = GenText.versions /\ spec_line_endings = GenText.line_endings_values /\
  spec_mimetypes = GenText.mimetypes /\ spec_meta_formats = GenText.meta_formats /\
  spec_diff_types = GenText.diff_types /\ Z.of_nat spec_default_indent = GenText.default_indent /\
  B "unix" = GenText.le_unix /\ B "json" = GenText.meta_format_json.
Proof. repeat split; reflexivity. Qed.

(* ================================================================================================ *)
(** * B. headers *)

Lemma rend_pair : forall kv, rend_opt kv -> is_present kv = true ->
  tpair_of kv (ascii_text (HeaderFacts.render_pair (spec_pair_of kv))) /\
  HeaderFacts.spec_pair (spec_pair_of kv) /\
  Forall ascii_byte (HeaderFacts.render_pair (spec_pair_of kv)).
Proof.
  intros [k v] [Hk Hv] Hp. cbn [fst snd] in *. unfold spec_pair_of, HeaderFacts.render_pair. cbn [fst snd].
  assert (Hgen : forall vb, fmt_value v = Ok (ascii_text vb) -> HeaderFacts.spec_val vb ->
            tpair_of (k, v) (ascii_text (k ++ B "=" ++ vb)) /\ HeaderFacts.spec_pair (k, vb) /\
            Forall ascii_byte (k ++ B "=" ++ vb)).
  { intros vb Hf Hs. split; [|split].
    - exists (ascii_text vb). split; [exact Hf|]. unfold ascii_text. rewrite !map_app. reflexivity.
    - split; assumption.
    - apply Forall_app. split; [apply spec_key_ascii; exact Hk|]. apply Forall_app. split.
      + constructor; [vm_compute; reflexivity|constructor].
      + apply spec_val_ascii. exact Hs. }
  destruct Hv as [|z|vb Hvb]; [discriminate Hp| |]; cbn [val_bytes].
  - exact (Hgen (Z_to_dec z) eq_refl (Z_to_dec_spec_val z)).
  - rewrite map_n_byte_ascii_text. exact (Hgen vb eq_refl Hvb).
Qed.

(* the writer's header, for renderable options: the spec-side rendering of its own sorted present options *)
Lemma render_header_sorted : forall dots name opts, Forall rend_opt opts ->
  render_header (build_id dots name) opts
  = Ok (HeaderFacts.render_header dots name (map spec_pair_of (present (sort_opts opts))) ++ [x0a]).
Proof.
  intros dots name opts Hgood.
  set (so := present (sort_opts opts)). set (ps := map spec_pair_of so).
  assert (Hso_good : forall kv, In kv so -> rend_opt kv /\ is_present kv = true).
  { intros kv Hin. unfold so, present in Hin. apply filter_In in Hin. destruct Hin as [Hin Hp]. split; [|exact Hp].
    rewrite Forall_forall in Hgood. apply Hgood.
    apply (Permutation_in _ (Permutation_sym (sort_opts_perm opts))). exact Hin. }
  assert (Hpairs : Forall HeaderFacts.spec_pair ps).
  { unfold ps. apply Forall_forall. intros p Hp. apply in_map_iff in Hp. destruct Hp as (kv & <- & Hkv).
    destruct (Hso_good kv Hkv) as [Hg Hp]. apply (rend_pair kv Hg Hp). }
  assert (Hrender : render_pairs (sort_opts opts)
                    = Ok (map (fun kv => ascii_text (HeaderFacts.render_pair (spec_pair_of kv))) so)).
  { apply render_pairs_complete. fold so. apply Forall2_map_self. apply Forall_forall. intros kv Hkv.
    destruct (Hso_good kv Hkv) as [Hg Hp]. apply (rend_pair kv Hg Hp). }
  set (J := join (B ", ") (map HeaderFacts.render_pair ps)).
  assert (HJ : join (ascii_text (B ", ")) (map (fun kv => ascii_text (HeaderFacts.render_pair (spec_pair_of kv))) so)
               = ascii_text J).
  { unfold J, ps, ascii_text. rewrite map_join, !map_map. reflexivity. }
  assert (HJascii : Forall ascii_byte J).
  { unfold J. apply Forall_join.
    - constructor; [vm_compute; reflexivity|]. constructor; [vm_compute; reflexivity|constructor].
    - unfold ps. rewrite map_map. apply Forall_forall. intros q Hq. apply in_map_iff in Hq.
      destruct Hq as (kv & <- & Hkv). destruct (Hso_good kv Hkv) as [Hg Hp]. apply (rend_pair kv Hg Hp). }
  unfold render_header. rewrite Hrender. cbn [bind]. rewrite HJ.
  unfold HeaderFacts.render_header, build_id.
  destruct ps as [|p ps'] eqn:Eps.
  - unfold J. cbn [map join ascii_text nonempty]. rewrite <- !app_assoc. reflexivity.
  - assert (HJne : J <> []).
    { unfold J. intros E. cbn [map] in E. apply join_nil_head in E.
      unfold HeaderFacts.render_pair in E. inversion Hpairs as [|? ? [Hk _] _]; subst.
      destruct Hk as (c & t & Hk & _). rewrite Hk in E. discriminate E. }
    assert (Hne : nonempty (ascii_text J) = true) by (destruct J; [congruence|reflexivity]).
    rewrite Hne. unfold encode_ascii. rewrite (enc_ascii_complete J HJascii). cbn [bind].
    fold J. change (B ": ") with (B ":" ++ B " "). rewrite <- !app_assoc. reflexivity.
Qed.

Lemma present_pairs : forall opts,
  map spec_pair_of (present opts) = opt_pairs (map (fun kv => (fst kv, sval (snd kv))) opts).
Proof.
  induction opts as [|[k v] t IH]; [reflexivity|].
  unfold present, opt_pairs in *. cbn [map filter flat_map fst snd].
  destruct v; cbn [is_present snd sval app map]; rewrite IH; reflexivity.
Qed.

Lemma key_leb_total : forall a b : bytes * bytes, bytes_leb (fst a) (fst b) = true \/ bytes_leb (fst b) (fst a) = true.
Proof. intros. apply bytes_leb_total. Qed.
Lemma key_leb_trans : forall a b c : bytes * bytes,
  bytes_leb (fst a) (fst b) = true -> bytes_leb (fst b) (fst c) = true -> bytes_leb (fst a) (fst c) = true.
Proof. intros a b c. apply bytes_leb_trans. Qed.

(* whatever order the options dict has: the writer's header is the specification's *)
Lemma writer_header_eq : forall dots name opts l h,
  NoDup (map fst opts) -> Forall rend_opt opts ->
  Permutation (opt_pairs (map (fun kv => (fst kv, sval (snd kv))) opts)) (opt_pairs l) ->
  render_header (build_id dots name) opts = Ok h -> h = header dots name l.
Proof.
  intros dots name opts l h Hnd Hgood Hperm H. rewrite render_header_sorted in H by exact Hgood.
  apply Ok_inj in H. rewrite <- H. unfold header, LFb.
  assert (E : map spec_pair_of (present (sort_opts opts)) = spec_pairs l); [|rewrite E; reflexivity].
  unfold spec_pairs.
  apply (sorted_perm_unique (@fst bytes bytes) bytes_leb bytes_leb_antisym).
  - apply StronglySorted_map_keys. apply present_sort_sorted.
  - apply (isort_sorted (fun a b : bytes * bytes => bytes_leb (fst a) (fst b)) key_leb_total key_leb_trans).
  - eapply perm_trans; [apply Permutation_map; apply Permutation_sym, present_sort_perm|].
    rewrite present_pairs. eapply perm_trans; [exact Hperm|]. apply isort_perm.
  - rewrite map_map. cbn [spec_pair_of fst]. unfold present. apply NoDup_map_filter.
    eapply Permutation_NoDup; [|exact Hnd]. apply Permutation_map. apply sort_opts_perm.
Qed.

Lemma key_nodup : forall l : list bytes, HeaderFacts.nodup_b l = true -> NoDup l.
Proof. exact HeaderFacts.nodup_b_sound. Qed.

(* ================================================================================================ *)
(** * C. positions *)

Definition tmap {A C} (f : A -> C) (t : Encodings.transition A) : Encodings.transition C :=
  match t with Encodings.TChange e => Encodings.TChange (option_map f e) | Encodings.TFile e => Encodings.TFile (option_map f e) end.

Lemma enclosing_change_map : forall {A C} (f : A -> C) (r : Encodings.history A),
  Encodings.enclosing_change (map (tmap f) r) = option_map f (Encodings.enclosing_change r).
Proof. induction r as [|[e|e] r IH]; cbn; auto. Qed.

Lemma orelse_map : forall {A C} (f : A -> C) a b,
  Encodings.orelse (option_map f a) (option_map f b) = option_map f (Encodings.orelse a b).
Proof. intros A C f [x|] b; reflexivity. Qed.

Lemma spec_effective_map : forall {A C} (f : A -> C) e0 (h : Encodings.history A),
  Encodings.spec_effective (option_map f e0) (map (tmap f) h) = option_map f (Encodings.spec_effective e0 h).
Proof.
  intros A C f e0 h. unfold Encodings.spec_effective. rewrite <- map_rev.
  destruct (rev h) as [|[e|e] r]; cbn [map tmap]; [reflexivity|apply orelse_map|].
  rewrite enclosing_change_map, !orelse_map. reflexivity.
Qed.

Lemma depth_map : forall {A C} (f : A -> C) (h : Encodings.history A),
  Encodings.depth (map (tmap f) h) = Encodings.depth h.
Proof. intros. unfold Encodings.depth. rewrite <- map_rev. destruct (rev h) as [|[e|e] r]; reflexivity. Qed.

Lemma path_stack_length : forall {E} (e0 : option E) h,
  length (Encodings.path_stack e0 h) = Encodings.depth h + 1.
Proof. intros. unfold Encodings.path_stack, Encodings.depth. destruct (rev h) as [|[e|e] r]; reflexivity. Qed.

Lemma depth_le2 : forall {E} (h : Encodings.history E), Encodings.depth h <= 2.
Proof. intros. unfold Encodings.depth. destruct (rev h) as [|[e|e] r]; lia. Qed.

Lemma depth_nonempty : forall {E} (h : Encodings.history E), h <> [] -> 1 <= Encodings.depth h.
Proof.
  intros E h Hne. unfold Encodings.depth. destruct (rev h) as [|[e|e] r] eqn:Er; try lia.
  exfalso. apply Hne. rewrite <- (rev_involutive h), Er. reflexivity.
Qed.

Lemma depth_snoc : forall {E} (h : Encodings.history E) t,
  Encodings.depth (h ++ [t]) = match t with Encodings.TChange _ => 1 | Encodings.TFile _ => 2 end.
Proof. intros. unfold Encodings.depth. rewrite rev_unit. destruct t; reflexivity. Qed.

Lemma run_calls_app_fst : forall cs cs' s,
  fst (run_calls s (cs ++ cs')) = fst (run_calls s cs) ++ fst (run_calls (snd (run_calls s cs)) cs').
Proof.
  induction cs as [|c t IH]; intros cs' s; [reflexivity|].
  cbn [app]. rewrite !WriterFacts.run_calls_cons. cbn [fst snd app]. rewrite IH. reflexivity.
Qed.

Lemma ok_history_snoc : forall pre s c,
  Encodings.ok_history (pre ++ [c]) (fst (run_calls s (pre ++ [c]))) =
  Encodings.ok_history pre (fst (run_calls s pre)) ++
  match Encodings.call_transition c, snd (do_call c (snd (run_calls s pre))) with
  | Some t, Ok _ => [t]
  | _, _ => []
  end.
Proof.
  induction pre as [|a p IH]; intros s c.
  - cbn [app]. rewrite WriterFacts.run_calls_cons. cbn [fst snd run_calls Encodings.ok_history app].
    destruct (Encodings.call_transition c); [destruct (snd (do_call c s))|]; reflexivity.
  - cbn [app]. rewrite !WriterFacts.run_calls_cons. cbn [fst snd Encodings.ok_history].
    destruct (Encodings.call_transition a); [destruct (snd (do_call a s))|]; cbn [app]; rewrite IH; reflexivity.
Qed.

Section Walk.
  Variables (enc0 ver : wv) (s0 : wstate) (e0 : option bytes).
  Hypothesis Hinit : writer_init enc0 ver = (s0, Ok tt).
  Hypothesis He0 : str_arg enc0 = Some e0.
  Hypothesis Henc0 : enc_ok enc0.

  (* the writer state [s] is at position [h] of the walk: it is the state after some calls whose accepted
     container calls are, in order, the containers of [h] *)
  Definition Pos (h : hist) (s : wstate) : Prop :=
    exists pre, s = snd (run_calls s0 pre) /\
                Encodings.ok_history pre (fst (run_calls s0 pre)) = map (tmap inj) h.

  Lemma pos_init : Pos [] s0.
  Proof. exists []. split; reflexivity. Qed.

  Lemma wdecl_enc0 : Encodings.wdecl enc0 = option_map inj e0.
  Proof.
    destruct (enc_ok_arg enc0 Henc0) as (own & H1 & H2 & _). rewrite He0 in H1. injection H1 as <-. exact H2.
  Qed.

  Lemma pos_facts : forall h s, Pos h s ->
    WriterFacts.reachable s /\ cur_level s = depth h + 1 /\
    Encodings.ordered (map (tmap inj) h) /\
    exists top, cur_encoding s = Ok top /\ Encodings.wdecl top = option_map inj (Encodings.spec_effective e0 h).
  Proof.
    intros h s (pre & -> & Hh).
    pose proof (Encodings.writer_history_ordered enc0 ver s0 pre Hinit) as Hord. rewrite Hh in Hord.
    split; [apply WriterFacts.reachable_run; eapply WriterFacts.reachable_init; exact Hinit|].
    split; [|split; [exact Hord|]].
    - destruct (Encodings.writer_init_stack enc0 ver s0 Hinit) as [Hne Hs0].
      pose proof (Encodings.writer_stack_history pre s0 Hne) as Hr. rewrite Hs0, Hh in Hr.
      fold (Encodings.wrun (Encodings.wdecl enc0) (map (tmap inj) h)) in Hr.
      rewrite (Encodings.wrun_invariant _ _ Hord) in Hr. injection Hr as Hr.
      apply (f_equal (@length _)) in Hr. rewrite map_length, app_length, path_stack_length, depth_map in Hr.
      cbn [length] in Hr. unfold cur_level, depth. lia.
    - destruct (Encodings.writer_effective_encoding_total enc0 ver s0 pre Hinit) as (top & Ht & Hd).
      exists top. split; [exact Ht|]. rewrite Hd, Hh, wdecl_enc0. apply spec_effective_map.
  Qed.

  Lemma pos_step : forall h s c s' t',
    Pos h s -> do_call c s = (s', Ok tt) ->
    match Encodings.call_transition c with Some t => [t] | None => [] end = map (tmap inj) t' ->
    Pos (h ++ t') s'.
  Proof.
    intros h s c s' t' (pre & -> & Hh) Hc Ht. exists (pre ++ [c]). split.
    - rewrite WriterFacts.run_calls_app_snd, WriterFacts.run_calls_cons. cbn [snd run_calls]. rewrite Hc. reflexivity.
    - rewrite ok_history_snoc, Hh, Hc. cbn [snd]. rewrite map_app, <- Ht.
      destruct (Encodings.call_transition c); reflexivity.
  Qed.

  (* ============================================================================================== *)
  (** * D. per-call lemmas *)

  (* ---- containers ---- *)
  Lemma ncs_spec : forall name level e s s' own,
    w_stack s <> [] -> 1 <= level -> enc_ok e -> str_arg e = Some own ->
    new_container_section name level e [] s = (s', Ok tt) ->
    w_out s' = w_out s ++ container_section (level - 1) name own.
  Proof.
    intros name level e s s' own Hne Hl He Hown H.
    rewrite WriterFacts.ncs_eq in H by assumption.
    destruct (validate_section s _) as [[]|err]; [|inversion H].
    destruct (render_header _ _) as [hd|err] eqn:Eh; [|inversion H]. cbv zeta in H.
    change (dict_set "encoding" e []) with [(B "encoding", e)] in Eh.
    injection H as <-. cbn [w_out]. f_equal. unfold container_section.
    apply (writer_header_eq _ _ [(B "encoding", e)] _ _); [| | |exact Eh].
    - cbn. constructor; [intros []|constructor].
    - constructor; [|constructor]. split; [apply key_spec; reflexivity|apply enc_ok_rend; exact He].
    - destruct (enc_ok_arg e He) as (own' & H1 & _ & H3 & _). rewrite Hown in H1. injection H1 as <-.
      cbn [map fst snd]. rewrite H3. apply Permutation_refl.
  Qed.

  Lemma container_step : forall h s c e s',
    (c = NewChange e \/ c = NewFile e) -> Pos h s -> enc_ok e -> do_call c s = (s', Ok tt) ->
    exists out h', spec_call e0 h c = Some (out, h') /\ w_out s' = w_out s ++ out /\ Pos h' s'.
  Proof.
    intros h s c e s' Hc HP He H.
    destruct (pos_facts h s HP) as (Hreach & _ & _ & _).
    pose proof (WriterFacts.Inv_stack s (WriterFacts.reachable_inv s Hreach)) as Hne.
    destruct (enc_ok_arg e He) as (own & Hown & Hwd & _).
    destruct Hc as [-> | ->].
    - exists (container_section 1 (B "change") own), (h ++ [Encodings.TChange own]).
      assert (HP' : Pos (h ++ [Encodings.TChange own]) s').
      { eapply pos_step; [exact HP|exact H|]. cbn [Encodings.call_transition map tmap]. rewrite Hwd. reflexivity. }
      split; [cbn [spec_call]; rewrite Hown; reflexivity|]. split; [|exact HP'].
      cbn [do_call] in H. assert (Hl : 1 <= GenText.writer_level_change) by (vm_compute; lia).
      exact (ncs_spec _ _ _ _ _ own Hne Hl He Hown H).
    - exists (container_section 2 (B "file") own), (h ++ [Encodings.TFile own]).
      assert (HP' : Pos (h ++ [Encodings.TFile own]) s').
      { eapply pos_step; [exact HP|exact H|]. cbn [Encodings.call_transition map tmap]. rewrite Hwd. reflexivity. }
      split; [|split; [|exact HP']].
      + destruct (pos_facts _ _ HP') as (_ & _ & Hord & _). rewrite map_app in Hord.
        apply Encodings.ordered_snoc in Hord. destruct Hord as [_ [Hch|Hh]]; [discriminate Hch|].
        assert (Hd : 1 <= depth h).
        { unfold depth. apply depth_nonempty. intros ->. apply Hh. reflexivity. }
        cbn [spec_call]. apply Nat.leb_le in Hd. rewrite Hd, Hown. reflexivity.
      + cbn [do_call] in H. assert (Hl : 1 <= GenText.writer_level_file) by (vm_compute; lia).
        exact (ncs_spec _ _ _ _ _ own Hne Hl He Hown H).
  Qed.

End Walk.
