(* WriterSpecFacts.v — C09 against the SPEC layer: the order the writer enforces is the specification's state tree
   (SectionsSpec.may_follow, written from the spec text), via SectionsFacts.table_is_spec_bytes (generated table =
   spec state tree). Kept apart from WriterFacts.v so that the latter depends on the model files only. *)
From Coq Require Import List Arith NArith ZArith Bool Strings.Byte.
From Coq Require Strings.String.
From DX Require Import Bytes Res Sections Writer WriterFacts.
From DX Require SectionsSpec SectionsFacts.
Import ListNotations.
Import String.StringSyntax.
Local Open Scope string_scope.
Local Open Scope list_scope.

(* "section [x] may follow section [p]" in the spec's state tree, on byte ids *)
Definition spec_may_follow (p x : bytes) : Prop :=
  exists a b, p = SectionsSpec.sid_bytes a /\ x = SectionsSpec.sid_bytes b /\ SectionsSpec.may_follow a b = true.

Lemma table_spec : forall p x, In x (WriterFacts.table p) <-> spec_may_follow p x.
Proof.
  intros p x. unfold spec_may_follow. rewrite <- SectionsFacts.table_is_spec_bytes. unfold WriterFacts.table.
  destruct (table_get p) as [row|]; split.
  - intro H. eauto.
  - intros (row' & E & H). inversion E; subst. exact H.
  - intros [].
  - intros (row' & E & _). discriminate.
Qed.

Theorem C09_accept_spec : forall s c s', reachable s -> do_call c s = (s', Ok tt) ->
  exists p, w_prev s = Some p /\ spec_may_follow p (target s c).
Proof.
  intros s c s' Hs H. destruct (C09_accept_order s c s' Hs H) as (p & Hp & Hin).
  exists p. split; [exact Hp | apply table_spec; exact Hin].
Qed.

Theorem C09_accept_spec_iff : forall s c, reachable s -> args_ok s c ->
  ((exists s', do_call c s = (s', Ok tt)) <-> (exists p, w_prev s = Some p /\ spec_may_follow p (target s c))).
Proof.
  intros s c Hs Ha. rewrite (C09_accept_iff s c Hs Ha).
  split; intros (p & Hp & H); exists p; (split; [exact Hp | apply table_spec; exact H]).
Qed.

Theorem C09_reject_spec : forall s c p, reachable s -> args_ok s c -> w_prev s = Some p ->
  ~ spec_may_follow p (target s c) -> do_call c s = (s, Err ELibOrder).
Proof.
  intros s c p Hs Ha Hp Hn. apply (C09_reject_order_error s c p Hs Ha Hp).
  intro H. apply Hn. apply table_spec. exact H.
Qed.

(* the nesting level of reachable states, in spec terms: the previous section is one of the nine spec ids *)
Theorem C09_prev_is_spec_id : forall s, reachable s -> exists a, w_prev s = Some (SectionsSpec.sid_bytes a).
Proof.
  intros s Hs. destruct (C09_state_shape s Hs) as (p & Hp & Hid & _).
  pose proof (id_ok_of p Hid) as Hok. unfold id_ok in Hok.
  destruct (table_get p) as [row|] eqn:E; [|discriminate].
  destruct (SectionsFacts.table_get_key p row E) as (a & -> & _). eauto.
Qed.

Example ex_spec : spec_may_follow (B "diffx") (target s_ex ex_preamble) /\ ~ spec_may_follow (B "diffx") (B "..file").
Proof.
  split.
  - exists SectionsSpec.Main, SectionsSpec.MainPreamble. repeat split; vm_compute; reflexivity.
  - intros (a & b & Ha & Hb & Hm). destruct a; try discriminate Ha. destruct b; discriminate.
Qed.
