(* C09 — "Writer enforces section order; rejected calls are atomic; output is append-only".
   Property statements only; definitions ([reachable], [target], [table], [args_ok], [level_of], [ids] ...),
   lemmas and proofs are in theories/WriterFacts.v.

   Vocabulary:
     do_call c s = (s', r)   one public call of DiffXWriter in state s: r = Err e means the call raised e
     reachable s             s is the state of a successfully constructed writer after any sequence of calls
     target s c              the section id the call c writes in state s
     table p                 the generated row of the specification's order table: what may follow section p
     args_ok s c             the arguments of c are well formed (right content type, non-empty content, option
                             values in their value sets, encoding naming a modelled codec that encodes the text,
                             indent an integer / omitted, metadata a non-empty serialisable dict) *)
From Coq Require Import List Arith NArith ZArith Bool Strings.Byte.
From Coq Require Strings.String.
From DX Require Import Bytes Res Codec Text Sections Header Json Writer WriterFacts WriterSpecFacts.
From DX Require SectionsSpec.
From DXGen Require GenSections GenText.
Import ListNotations.
Import String.StringSyntax.
Local Open Scope string_scope.
Local Open Scope list_scope.

(* ---- rejected calls are atomic: stack, previous section AND output bytes unchanged, for every call and
        every (dynamically typed) argument ---- *)
Theorem C09_atomic : forall s, reachable s -> forall c s' e, do_call c s = (s', Err e) -> s' = s.
Proof. exact WriterFacts.C09_atomic. Qed.
Print Assumptions C09_atomic.

Theorem C09_no_byte_written : forall s, reachable s -> forall c s' e,
  do_call c s = (s', Err e) -> w_out s' = w_out s /\ w_stack s' = w_stack s /\ w_prev s' = w_prev s.
Proof. exact WriterFacts.C09_no_byte_written. Qed.
Print Assumptions C09_no_byte_written.

(* ---- the writer continues exactly as if the rejected call had not been made ---- *)
Theorem C09_continue : forall s, reachable s -> forall c s' e cs,
  do_call c s = (s', Err e) -> run_calls s' cs = run_calls s cs.
Proof. exact WriterFacts.C09_continue. Qed.
Print Assumptions C09_continue.

Theorem C09_continue_run : forall s, reachable s -> forall c s' e cs,
  do_call c s = (s', Err e) ->
  run_calls s (c :: cs) = ((Err e, length (w_out s)) :: fst (run_calls s cs), snd (run_calls s cs)).
Proof. exact WriterFacts.C09_continue_run. Qed.
Print Assumptions C09_continue_run.

(* ---- output is append-only: any call, any arguments, any state (no hypothesis) ---- *)
Theorem C09_append : forall c s s' r, do_call c s = (s', r) -> exists suf, w_out s' = w_out s ++ suf.
Proof. exact WriterFacts.C09_append. Qed.
Print Assumptions C09_append.

Theorem C09_append_run : forall cs s, exists suf, w_out (snd (run_calls s cs)) = w_out s ++ suf.
Proof. exact WriterFacts.C09_append_run. Qed.
Print Assumptions C09_append_run.

Theorem C09_append_prefix : forall cs cs' s,
  exists suf, w_out (snd (run_calls s (cs ++ cs'))) = w_out (snd (run_calls s cs)) ++ suf.
Proof. exact WriterFacts.C09_append_prefix. Qed.
Print Assumptions C09_append_prefix.

(* ---- shape of reachable states: the last written section is one of the nine ids and fixes the nesting ---- *)
Theorem C09_state_shape : forall s, reachable s ->
  exists p, w_prev s = Some p /\ In p ids /\ length (w_stack s) = 1 + level_of p /\ cur_level s = level_of p.
Proof. exact WriterFacts.C09_state_shape. Qed.
Print Assumptions C09_state_shape.

(* ---- accepted => the written section may follow the previous one (any arguments) ---- *)
Theorem C09_accept_order : forall s c s', reachable s -> do_call c s = (s', Ok tt) ->
  exists p, w_prev s = Some p /\ In (target s c) (table p).
Proof. exact WriterFacts.C09_accept_order. Qed.
Print Assumptions C09_accept_order.

Theorem C09_accept_prev : forall s c s', reachable s -> do_call c s = (s', Ok tt) -> w_prev s' = Some (target s c).
Proof. exact WriterFacts.C09_accept_prev. Qed.
Print Assumptions C09_accept_prev.

(* ---- may follow + well-formed arguments => accepted (all five calls) ---- *)
Theorem C09_accept_complete : forall s c p,
  reachable s -> args_ok s c -> w_prev s = Some p -> In (target s c) (table p) ->
  exists s', do_call c s = (s', Ok tt).
Proof. exact WriterFacts.C09_accept_complete. Qed.
Print Assumptions C09_accept_complete.

Theorem C09_accept_iff : forall s c, reachable s -> args_ok s c ->
  ((exists s', do_call c s = (s', Ok tt)) <-> (exists p, w_prev s = Some p /\ In (target s c) (table p))).
Proof. exact WriterFacts.C09_accept_iff. Qed.
Print Assumptions C09_accept_iff.

(* ---- may not follow => rejected, atomically (any arguments); with well-formed arguments the error is the
        library's section-order error ---- *)
Theorem C09_reject_order : forall s c p s' r, reachable s -> w_prev s = Some p -> ~ In (target s c) (table p) ->
  do_call c s = (s', r) -> exists e, r = Err e /\ s' = s.
Proof. exact WriterFacts.C09_reject_order. Qed.
Print Assumptions C09_reject_order.

Theorem C09_reject_order_error : forall s c p,
  reachable s -> args_ok s c -> w_prev s = Some p -> ~ In (target s c) (table p) ->
  do_call c s = (s, Err ELibOrder).
Proof. exact WriterFacts.C09_reject_order_error. Qed.
Print Assumptions C09_reject_order_error.

(* ---- the same against the SPEC layer: [spec_may_follow p x] := p, x are two of the nine spec ids a, b with
        SectionsSpec.may_follow a b (the specification's state tree, written from the spec text: preamble, then
        metadata, then changes; per change preamble, metadata, then files; per file metadata then optional diff) ---- *)
Theorem C09_accept_spec : forall s c s', reachable s -> do_call c s = (s', Ok tt) ->
  exists p, w_prev s = Some p /\ spec_may_follow p (target s c).
Proof. exact WriterSpecFacts.C09_accept_spec. Qed.
Print Assumptions C09_accept_spec.

Theorem C09_accept_spec_iff : forall s c, reachable s -> args_ok s c ->
  ((exists s', do_call c s = (s', Ok tt)) <-> (exists p, w_prev s = Some p /\ spec_may_follow p (target s c))).
Proof. exact WriterSpecFacts.C09_accept_spec_iff. Qed.
Print Assumptions C09_accept_spec_iff.

Theorem C09_reject_spec : forall s c p, reachable s -> args_ok s c -> w_prev s = Some p ->
  ~ spec_may_follow p (target s c) -> do_call c s = (s, Err ELibOrder).
Proof. exact WriterSpecFacts.C09_reject_spec. Qed.
Print Assumptions C09_reject_spec.

Theorem C09_prev_is_spec_id : forall s, reachable s -> exists a, w_prev s = Some (SectionsSpec.sid_bytes a).
Proof. exact WriterSpecFacts.C09_prev_is_spec_id. Qed.
Print Assumptions C09_prev_is_spec_id.

(* ---- malformed arguments are rejected whatever the order: wrong content type / empty content / option value
        outside its value set (unencodable text and unknown codecs: see ex_run and C09_atomic) ---- *)
Theorem C09_reject_malformed : forall c s,
  match c with
  | NewChange _ | NewFile _ => True
  | WritePreamble text _ _ le mt =>
      (forall t, text = WStr t -> t = []) \/ (le <> WNone /\ in_strset le GenText.line_endings_values <> Ok true)
      \/ (mt <> WNone /\ in_strset mt GenText.mimetypes <> Ok true)
  | WriteMeta md _ fmt =>
      (forall j, md = WDict j -> wv_truthy md = false)
      \/ (exists v, fmt = Some v /\ in_strset v GenText.meta_formats <> Ok true)
  | WriteDiff content dt _ le =>
      (forall b, content = WBytes b -> b = []) \/ (le <> WNone /\ in_strset le GenText.line_endings_values <> Ok true)
      \/ (dt <> WNone /\ in_strset dt GenText.diff_types <> Ok true)
  end -> match c with NewChange _ | NewFile _ => True | _ => is_err (snd (do_call c s)) end.
Proof. exact WriterFacts.C09_reject_malformed. Qed.
Print Assumptions C09_reject_malformed.

(* ---- examples: the hypotheses are satisfiable; a concrete run ---- *)
Example C09_ex_init :
  writer_init U8 V10 = (s_ex, Ok tt) /\ w_out s_ex = B "#diffx: encoding=utf-8, version=1.0" ++ [x0a].
Proof. exact WriterFacts.ex_init. Qed.

Example C09_ex_reachable : reachable s_ex.
Proof. exact WriterFacts.ex_reachable. Qed.

(* new_file() directly under the main section: order error; new_change(encoding='\xe9'): the header cannot be
   encoded; both leave the 36 bytes written so far; new_change() is then accepted and appends "#.change:\n" *)
Example C09_ex_run :
  run_calls s_ex [NewFile WNone; NewChange (WStr [233%N]); NewChange WNone]
  = ([(Err ELibOrder, 36); (Err EUnicodeEncode, 36); (Ok tt, 46)],
     {| w_out := B "#diffx: encoding=utf-8, version=1.0" ++ [x0a] ++ B "#.change:" ++ [x0a];
        w_stack := [U8; U8; U8];
        w_prev := Some (B ".change") |}).
Proof. exact WriterFacts.ex_run. Qed.

Example C09_ex_atomic : exists c e, reachable s_ex /\ do_call c s_ex = (s_ex, Err e).
Proof. exact WriterFacts.ex_atomic. Qed.

Example C09_ex_args_ok :
  args_ok s_ex ex_preamble /\ In (target s_ex ex_preamble) (table (B "diffx")) /\ w_prev s_ex = Some (B "diffx").
Proof. exact WriterFacts.ex_args_ok. Qed.

Example C09_ex_document :
  map fst (fst (run_calls s_ex
    [ex_preamble; WriteDiff (WBytes (B "x")) WNone WNone WNone; NewChange WNone; NewFile WNone;
     WriteMeta (WDict (JObj [(ascii_text (B "k"), JInt 1)])) WNone None;
     WriteDiff (WBytes (B "x")) WNone WNone WNone; ex_preamble]))
  = [Ok tt; Err ELibOrder; Ok tt; Ok tt; Ok tt; Ok tt; Err ELibOrder].
Proof. exact WriterFacts.ex_document. Qed.

Example C09_ex_spec :
  spec_may_follow (B "diffx") (target s_ex ex_preamble) /\ ~ spec_may_follow (B "diffx") (B "..file").
Proof. exact WriterSpecFacts.ex_spec. Qed.

(* atomicity is not a triviality of the model: on an unreachable state (empty encoding stack) new_change() writes
   its header and then raises *)
Example C09_ex_not_trivial :
  let s := {| w_out := []; w_stack := []; w_prev := None |} in
  do_call (NewChange WNone) s
  = ({| w_out := B "#.change:" ++ [x0a]; w_stack := []; w_prev := Some (B ".change") |}, Err EIndex).
Proof. exact WriterFacts.ex_not_trivial. Qed.
