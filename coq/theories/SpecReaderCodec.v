(* SpecReaderCodec.v — one more fact about the ten executable codecs, needed for files of other producers:
   content written WITHOUT the byte order mark that Python's encoder would write (utf-8-sig, utf-16, utf-32)
   decodes to the same text, provided its first bytes do not themselves read as a byte order mark. *)
From Coq Require Import List Arith NArith ZArith Bool Strings.Byte Lia.
From Coq Require Strings.String.
From DX Require Import Bytes Res Codec Text SpecReader.
From DX Require Import TextFacts RoundTripCodec RoundTripCodecInst RoundTripCodecUtf.
From DX Require HeaderFacts.
From DXGen Require GenText GenCodecs.
Import ListNotations.
Import String.StringSyntax.
Local Open Scope string_scope.
Local Open Scope list_scope.

Definition nobom_dec (c : codec) (bom : bytes) (enc0 : text -> option bytes) : Prop :=
  forall t b, enc0 t = Some b -> bom = [] \/ starts_with_bom b = false -> c_dec c b = Some t.

Lemma existsb_false_in : forall {A} (f : A -> bool) l x, existsb f l = false -> In x l -> f x = false.
Proof.
  intros A f l x H Hin. destruct (f x) eqn:E; [|reflexivity].
  assert (existsb f l = true) by (apply existsb_exists; exists x; auto). congruence.
Qed.

Lemma no_bom_start : forall b m, starts_with_bom b = false -> mem beq m all_boms = true -> bstarts m b = false.
Proof.
  intros b m H Hm. unfold starts_with_bom in H.
  apply (existsb_false_in (fun m => bstarts m b) all_boms m H).
  apply (HeaderFacts.in_ids_In m all_boms). exact Hm.
Qed.

Lemma enc_bom_of_laws : forall eb c bom enc0, codec_laws eb c bom enc0 -> enc_bom c = bom.
Proof.
  intros eb c bom enc0 laws. unfold enc_bom. rewrite (cl_enc _ _ _ _ laws).
  assert (E : enc0 [] = Some []).
  { assert (Hin : In (B "unix", [10%N]) GenText.newline_formats) by (right; left; reflexivity).
    destruct (cl_nl _ _ _ _ laws _ _ Hin) as (nlb & Hn & _).
    pose proof (cl_hom _ _ _ _ laws [] [10%N]) as H. cbn [app] in H. rewrite Hn in H.
    destruct (enc0 []) as [x|]; cbn in H; [|discriminate H]. injection H as H.
    assert (Hl : length nlb = length (x ++ nlb)) by congruence. rewrite app_length in Hl.
    destruct x; [reflexivity | cbn in Hl; lia]. }
  rewrite E. cbn. apply app_nil_r.
Qed.

(* codecs that write no byte order mark *)
Lemma laws_x_plain : forall eb c, codec_ok eb -> (exists canon, lookup_codec eb = LOk canon c) -> enc_bom c = [] ->
  exists bom enc0, codec_laws eb c bom enc0 /\ nobom_dec c bom enc0.
Proof.
  intros eb c (c2 & bom & enc0 & laws) [canon E] Hb.
  destruct (cl_lookup _ _ _ _ laws) as [canon2 E2]. rewrite E in E2. injection E2 as _ <-.
  exists bom, enc0. split; [exact laws|].
  rewrite (enc_bom_of_laws eb c bom enc0 laws) in Hb. subst bom.
  intros t b H _. exact (cl_dec _ _ _ _ laws t b H).
Qed.

Theorem codec_laws_x : forall eb c, codec_of eb = Some c ->
  exists bom enc0, codec_laws eb c bom enc0 /\ nobom_dec c bom enc0.
Proof.
  intros eb c H. unfold codec_of in H. destruct (lookup_codec eb) as [canon c'| |] eqn:E; try discriminate H.
  injection H as ->.
  pose proof (lookup_modelled eb canon c E) as Hm. unfold modelled in Hm. cbn [assoc_get] in Hm.
  repeat match type of Hm with
         | (if beq canon ?k then _ else _) = _ =>
             let Ec := fresh "Ec" in
             destruct (beq canon k) eqn:Ec; [apply beq_eq in Ec; subst canon; injection Hm as <- | clear Ec]
         end; [.. | discriminate Hm].
  - apply laws_x_plain; [exact (codec_ok_ascii eb _ E) | eauto | reflexivity].
  - apply laws_x_plain; [exact (codec_ok_latin1 eb _ E) | eauto | reflexivity].
  - apply laws_x_plain; [exact (codec_ok_utf8 eb _ E) | eauto | reflexivity].
  - (* utf-8-sig *)
    exists bom8, (enc_all u8_enc_cp). split.
    + apply (codec_laws_of_cp eb (B "utf-8-sig") utf8sig bom8 u8_enc_cp u8_dec);
        [exact E | reflexivity | reflexivity | reflexivity | exact u8_step | exact u8_nl_ok | vm_compute; reflexivity].
    + intros t b Hb [Hbom | Hs]; [discriminate Hbom|]. cbn [c_dec utf8sig].
      rewrite (no_bom_start b bom8 Hs) by (vm_compute; reflexivity).
      apply (dec_enc_all u8_enc_cp u8_dec eq_refl u8_step). exact Hb.
  - (* utf-16 *)
    exists bom16le, (enc_all (u16_enc_cp true)). split.
    + apply (codec_laws_of_cp eb (B "utf-16") utf16 bom16le (u16_enc_cp true) (u16_dec true));
        [exact E | reflexivity | reflexivity | reflexivity | exact (u16_step true) | exact (u16_nl_ok true) | vm_compute; reflexivity].
    + intros t b Hb [Hbom | Hs]; [discriminate Hbom|]. cbn [c_dec utf16].
      rewrite (no_bom_start b bom16le Hs) by (vm_compute; reflexivity).
      rewrite (no_bom_start b bom16be Hs) by (vm_compute; reflexivity).
      apply (dec_enc_all (u16_enc_cp true) (u16_dec true) eq_refl (u16_step true)). exact Hb.
  - apply laws_x_plain; [exact (codec_ok_utf16le eb _ E) | eauto | reflexivity].
  - apply laws_x_plain; [exact (codec_ok_utf16be eb _ E) | eauto | reflexivity].
  - (* utf-32 *)
    exists bom32le, (enc_all (u32_enc_cp true)). split.
    + apply (codec_laws_of_cp eb (B "utf-32") utf32 bom32le (u32_enc_cp true) (u32_dec true));
        [exact E | reflexivity | reflexivity | reflexivity | exact (u32_step true) | exact (u32_nl_ok true) | vm_compute; reflexivity].
    + intros t b Hb [Hbom | Hs]; [discriminate Hbom|]. cbn [c_dec utf32].
      rewrite (no_bom_start b bom32le Hs) by (vm_compute; reflexivity).
      rewrite (no_bom_start b bom32be Hs) by (vm_compute; reflexivity).
      apply (dec_enc_all (u32_enc_cp true) (u32_dec true) eq_refl (u32_step true)). exact Hb.
  - apply laws_x_plain; [exact (codec_ok_utf32le eb _ E) | eauto | reflexivity].
  - apply laws_x_plain; [exact (codec_ok_utf32be eb _ E) | eauto | reflexivity].
Qed.

(* the law is not vacuous: a text that begins with U+FEFF, written without a mark in utf-8-sig, reads differently *)
Example nobom_needed :
  c_enc utf8 [0xFEFF; 0x61]%N = Some [xef; xbb; xbf; x61] /\ c_dec utf8sig [xef; xbb; xbf; x61] = Some [0x61]%N /\
  starts_with_bom [xef; xbb; xbf; x61] = true.
Proof. vm_compute. repeat split. Qed.
