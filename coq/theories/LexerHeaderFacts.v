(* LexerHeaderFacts.v — second half of C20 for the lexer model, over an abstract grammar of DiffX documents:
   a document is a list of sections (header, optional option text without LF, body); container sections
   (#diffx: #.change: #..file:) have no body, content sections (#[.]{1,3}meta: #[.]{1,2}preamble: #...diff:) have a
   non-empty body without the two-character sequence "#."; only the first section may be "#diffx:".
   [headers_thm]: on the rendering of such a document the engine, run on the generated rule table with a sub-lexer
   oracle whose tokens are neither Name.Tag nor Error (i.e. looking at the tokens of the DiffX-level rules only),
   produces no Error token and its Name.Tag tokens are exactly the section headers in order.
   The proof runs the executable matcher: it needs the priority order (lazy `.+?` up to the first lookahead hit). *)
From Coq Require Import List Arith NArith Bool Lia.
From Coq Require Strings.String.
From DX Require Import Bytes Lexer LexerFacts.
From DXGen Require GenLexer.
Import ListNotations.
Import String.StringSyntax.
Local Open Scope string_scope.
Local Open Scope list_scope.

Definition K0 : cont := fun st c => Some (st, c).

(* ------------------------------------------------------------------ advancing a state *)
Fixpoint advn (st : mstate) (k : nat) : mstate :=
  match k with
  | 0 => st
  | S k' => match m_rest st with ch :: t => advn (step st ch t) k' | [] => st end
  end.

Lemma advn_rest : forall pre st rest', m_rest st = pre ++ rest' -> m_rest (advn st (length pre)) = rest'.
Proof.
  induction pre as [|x pre IH]; intros st rest' H; simpl; [assumption|].
  rewrite H. simpl. apply IH. reflexivity.
Qed.

Lemma advn_pos : forall pre st rest',
  m_rest st = pre ++ rest' -> m_pos (advn st (length pre)) = (m_pos st + N.of_nat (length pre))%N.
Proof.
  induction pre as [|x pre IH]; intros st rest' H; cbn [length advn]; [lia|].
  rewrite H. cbn [app]. rewrite (IH (step st x (pre ++ rest')) rest' eq_refl). simpl. lia.
Qed.

Lemma advn_add : forall a b st, advn st (a + b) = advn (advn st a) b.
Proof.
  induction a as [|a IH]; intros b st; simpl; [reflexivity|].
  destruct (m_rest st) as [|ch t] eqn:E; [|apply IH].
  destruct b; simpl; [reflexivity|]. rewrite E. reflexivity.
Qed.

Lemma advn_S st ch t k : m_rest st = ch :: t -> advn st (S k) = advn (step st ch t) k.
Proof. intros H. cbn [advn]. rewrite H. reflexivity. Qed.

Lemma ltb_succ p : N.ltb p (N.succ p) = true.
Proof. apply N.ltb_lt. lia. Qed.

(* ------------------------------------------------------------------ single-character repetition bodies *)
Definition char_body (p : N -> bool) (body : mstate -> caps -> cont -> mres) : Prop :=
  forall st c k, body st c k =
                 match m_rest st with ch :: t => if p ch then k (step st ch t) c else None | [] => None end.

Lemma greedy_full p body : char_body p body ->
  forall pre st rest' c k res n lo,
    m_rest st = pre ++ rest' -> forallb p pre = true ->
    match rest' with [] => True | y :: _ => p y = false end ->
    lo <= length pre -> length (m_rest st) < n ->
    k (advn st (length pre)) c = Some res ->
    rep_loop body true n lo None st c k = Some res.
Proof.
  intros Hb. induction pre as [|x pre IH]; intros st rest' c k res n lo Hr Hp Hn Hlo Hlen Hk.
  - destruct n; [lia|]. cbn [rep_loop opt_pred option_map]. rewrite Hb. simpl in Hr. rewrite Hr.
    simpl in Hlo. assert (lo = 0) by lia. subst lo. simpl in Hk.
    destruct rest' as [|y r]; [exact Hk|]. rewrite Hn. exact Hk.
  - destruct n; [lia|]. cbn [rep_loop opt_pred option_map]. rewrite Hb. rewrite Hr. cbn [app].
    simpl in Hp. apply andb_true_iff in Hp. destruct Hp as [Hx Hp]. rewrite Hx.
    cbn [m_pos step]. rewrite ltb_succ.
    rewrite (IH (step st x (pre ++ rest')) rest' c k res n (Nat.pred lo)); try reflexivity; try assumption.
    + simpl in Hlo. lia.
    + rewrite Hr in Hlen. simpl in *. lia.
    + cbn [length advn] in Hk. rewrite Hr in Hk. exact Hk.
Qed.

Lemma lazy_scan body : char_body (fun _ => true) body ->
  forall pre st rest' c k res n,
    m_rest st = pre ++ rest' -> length (m_rest st) < n ->
    (forall j, j < length pre -> k (advn st j) c = None) ->
    k (advn st (length pre)) c = Some res ->
    rep_loop body false n 0 None st c k = Some res.
Proof.
  intros Hb. induction pre as [|x pre IH]; intros st rest' c k res n Hr Hlen Hf Hk.
  - destruct n; [lia|]. cbn [rep_loop opt_pred option_map]. simpl in Hk. rewrite Hk. reflexivity.
  - destruct n; [lia|]. cbn [rep_loop opt_pred option_map]. pose proof (Hf 0 ltac:(simpl; lia)) as H0. simpl in H0. rewrite H0.
    rewrite Hb, Hr. cbn [app m_pos step]. rewrite ltb_succ.
    apply (IH (step st x (pre ++ rest')) rest'); try reflexivity.
    + rewrite Hr in Hlen. simpl in *. lia.
    + intros j Hj. specialize (Hf (S j)). cbn [advn] in Hf. rewrite Hr in Hf. apply Hf. simpl. lia.
    + cbn [length advn] in Hk. rewrite Hr in Hk. exact Hk.
Qed.

Lemma lazy_scan1 body : char_body (fun _ => true) body ->
  forall x pre st rest' c k res n,
    m_rest st = (x :: pre) ++ rest' -> length (m_rest st) < n ->
    (forall j, 1 <= j -> j < length (x :: pre) -> k (advn st j) c = None) ->
    k (advn st (length (x :: pre))) c = Some res ->
    rep_loop body false n 1 None st c k = Some res.
Proof.
  intros Hb x pre st rest' c k res n Hr Hlen Hf Hk.
  destruct n; [lia|]. cbn [rep_loop opt_pred option_map]. rewrite Hb, Hr. cbn [app m_pos step]. rewrite ltb_succ.
  apply (lazy_scan body Hb pre (step st x (pre ++ rest')) rest'); try reflexivity.
  - rewrite Hr in Hlen. simpl in *. lia.
  - intros j Hj. specialize (Hf (S j)). cbn [advn] in Hf. rewrite Hr in Hf. apply Hf; simpl; lia.
  - cbn [length advn] in Hk. rewrite Hr in Hk. exact Hk.
Qed.

Lemma opt_unfold body n st c k :
  2 <= n ->
  rep_loop body true n 0 (Some 1) st c k =
  match body st c (fun st1 c1 => if N.ltb (m_pos st) (m_pos st1) then k st1 c1 else None) with
  | Some r => Some r
  | None => k st c
  end.
Proof. intros H. destruct n as [|[|n]]; try lia. reflexivity. Qed.

(* ------------------------------------------------------------------ the rules this proof is about *)
Fixpoint sq (l : list regex) : regex := match l with [] => REmpty | [x] => x | x :: t => RSeq x (sq t) end.
Definition Ls (s : String.string) : list regex := map RLit (ascii_text s).
Definition DOTS lo hi := RRepeat true lo (Some hi) (RLit 46).

Definition NOTLF := RClass true [(10%N, 10%N)].
Definition OPT := RRepeat true 0 (Some 1) (RSeq (RGroup 2 (RLit 32)) (RGroup 3 (RRepeat true 0 None NOTLF))).
Definition G4 := RGroup 4 (RLit 10).
Definition G5 := RGroup 5 (RAlt (RRepeat false 1 None RAny) REndZ).
Definition LOOKB := RAlt (RSeq (RLit 35) (RSeq (RRepeat true 1 (Some 3) (RLit 46)) (RClass false [(97%N, 122%N)]))) REndZ.
Definition CONTENT_REST := RSeq OPT (RSeq G4 (RSeq G5 (RLook LOOKB))).
Definition CONTAINER_REST := RSeq OPT G4.
Definition G1c := Eval vm_compute in
  sq [RLit 35; RAlt (sq (Ls "diffx")) (RAlt (sq (Ls ".change")) (sq (Ls "..file"))); RLit 58].
Definition G1m := Eval vm_compute in sq ([RLit 35; DOTS 1 3] ++ Ls "meta:").
Definition G1p := Eval vm_compute in sq ([RLit 35; DOTS 1 3] ++ Ls "preamble:").
Definition G1d := Eval vm_compute in sq ([RLit 35; DOTS 3 3] ++ Ls "diff:").
Definition R1 := Eval vm_compute in sq (Ls "..." ++ [RLit 10]).

Definition t_tag : bytes := B "Token.Name.Tag".
Definition t_text : bytes := B "Token.Text".
Definition args4 : list gaction := [GTok t_tag; GTok t_text; GTok (B "Token.Name.Attribute"); GTok t_text].
Definition st_diff : bytes := B "diff".
Definition mkrule re act := {| r_re := re; r_act := act; r_new := NsNone |}.

Definition rule_container := mkrule (RSeq (RGroup 1 G1c) CONTAINER_REST) (AByGroups args4).
Definition rule_meta := mkrule (RSeq (RGroup 1 G1m) CONTENT_REST) (AByGroups (args4 ++ [GUsing (UOther (B "JsonLexer"))])).
Definition rule_preamble := mkrule (RSeq (RGroup 1 G1p) CONTENT_REST) (AByGroups (args4 ++ [GTok t_text])).
Definition rule_diff := mkrule (RSeq (RGroup 1 G1d) CONTENT_REST) (AByGroups (args4 ++ [GUsing (UThis [st_root; st_diff])])).
Definition root_rules : list rule :=
  [ mkrule R1 (ATok (B "Token.Comment.Single")); rule_container; rule_meta; rule_preamble; rule_diff;
    mkrule (RSeq (RRepeat true 0 None RAny) (RLit 10)) (ATok t_text) ].

(* the generated table is the one above (re-checked whenever GenLexer.v is regenerated) *)
Lemma root_lookup : assoc_get beq st_root GenLexer.rules = Some root_rules.
Proof. vm_compute. reflexivity. Qed.

Definition diff_rules : list rule :=
  Eval vm_compute in match assoc_get beq st_diff GenLexer.rules with Some r => r | None => [] end.
Lemma diff_lookup : assoc_get beq st_diff GenLexer.rules = Some diff_rules.
Proof. vm_compute. reflexivity. Qed.

(* ------------------------------------------------------------------ headers *)
Definition h_diffx : text := Eval vm_compute in ascii_text "#diffx:".
Definition h_change : text := Eval vm_compute in ascii_text "#.change:".
Definition h_file : text := Eval vm_compute in ascii_text "#..file:".
Definition h_meta1 : text := Eval vm_compute in ascii_text "#.meta:".
Definition h_meta2 : text := Eval vm_compute in ascii_text "#..meta:".
Definition h_meta3 : text := Eval vm_compute in ascii_text "#...meta:".
Definition h_pre1 : text := Eval vm_compute in ascii_text "#.preamble:".
Definition h_pre2 : text := Eval vm_compute in ascii_text "#..preamble:".
Definition h_diff : text := Eval vm_compute in ascii_text "#...diff:".

Definition mk0 (p : option N) (t : text) (pos : N) : mstate := {| m_prev := p; m_rest := t; m_pos := pos |}.

Ltac crunch := repeat (cbn -[N.ltb N.sub N.succ]; rewrite ?ltb_succ).
Ltac crunch_in H := repeat (cbn -[N.ltb N.sub N.succ] in H; rewrite ?ltb_succ in H).

(* group 1 of a rule on its own header: the rest of the regex continues right after the header *)
Definition hdr_ok (G1 : regex) (h : text) : Prop :=
  forall R p sym pos c k res,
    rm R (advn (mk0 p (h ++ sym) pos) (length h))
       ((1, Build_cap pos (m_pos (advn (mk0 p (h ++ sym) pos) (length h)) - pos)%N (h ++ sym)) :: c) k = Some res ->
    rm (RSeq (RGroup 1 G1) R) (mk0 p (h ++ sym) pos) c k = Some res.

Ltac solve_ok := unfold hdr_ok, mk0; intros R p sym pos c k res H; crunch; crunch_in H; rewrite H; reflexivity.

Lemma ok_diffx : hdr_ok G1c h_diffx. Proof. solve_ok. Qed.
Lemma ok_change : hdr_ok G1c h_change. Proof. solve_ok. Qed.
Lemma ok_file : hdr_ok G1c h_file. Proof. solve_ok. Qed.
Lemma ok_meta1 : hdr_ok G1m h_meta1. Proof. solve_ok. Qed.
Lemma ok_meta2 : hdr_ok G1m h_meta2. Proof. solve_ok. Qed.
Lemma ok_meta3 : hdr_ok G1m h_meta3. Proof. solve_ok. Qed.
Lemma ok_pre1 : hdr_ok G1p h_pre1. Proof. solve_ok. Qed.
Lemma ok_pre2 : hdr_ok G1p h_pre2. Proof. solve_ok. Qed.
Lemma ok_diff : hdr_ok G1d h_diff. Proof. solve_ok. Qed.

(* group 1 of an earlier rule on another header fails *)
Definition hdr_fail (G1 : regex) (h : text) : Prop :=
  forall R p sym pos c k, rm (RSeq (RGroup 1 G1) R) (mk0 p (h ++ sym) pos) c k = None.

Ltac solve_fail := unfold hdr_fail, mk0; intros R p sym pos c k; crunch; reflexivity.

Lemma fail_c_meta1 : hdr_fail G1c h_meta1. Proof. solve_fail. Qed.
Lemma fail_c_meta2 : hdr_fail G1c h_meta2. Proof. solve_fail. Qed.
Lemma fail_c_meta3 : hdr_fail G1c h_meta3. Proof. solve_fail. Qed.
Lemma fail_c_pre1 : hdr_fail G1c h_pre1. Proof. solve_fail. Qed.
Lemma fail_c_pre2 : hdr_fail G1c h_pre2. Proof. solve_fail. Qed.
Lemma fail_c_diff : hdr_fail G1c h_diff. Proof. solve_fail. Qed.
Lemma fail_m_pre1 : hdr_fail G1m h_pre1. Proof. solve_fail. Qed.
Lemma fail_m_pre2 : hdr_fail G1m h_pre2. Proof. solve_fail. Qed.
Lemma fail_m_diff : hdr_fail G1m h_diff. Proof. solve_fail. Qed.
Lemma fail_p_diff : hdr_fail G1p h_diff. Proof. solve_fail. Qed.

Lemma r1_fail p t pos c k : rm R1 (mk0 p (35%N :: t) pos) c k = None.
Proof. reflexivity. Qed.

(* ------------------------------------------------------------------ the lookahead *)
Definition bad_look (t : text) : Prop :=
  match t with [] => False | [x] => True | x :: y :: _ => N.eqb x 35 && N.eqb y 46 = false end.

Definition dotted : list text := [h_change; h_file; h_meta1; h_meta2; h_meta3; h_pre1; h_pre2; h_diff].
Definition good_tail (t : text) : Prop := t = [] \/ exists h r, In h dotted /\ t = h ++ r.

Lemma look_fail st c : bad_look (m_rest st) -> rm LOOKB st c K0 = None.
Proof.
  destruct st as [p t pos]. cbn [m_rest]. destruct t as [|x [|y r]]; cbn [bad_look]; intros H; try contradiction.
  - unfold LOOKB. crunch. destruct (N.eqb x 35); crunch; reflexivity.
  - unfold LOOKB. crunch. destruct (N.eqb x 35); [|crunch; reflexivity].
    cbn [andb] in H. rewrite H. crunch. reflexivity.
Qed.

Lemma look_succ st c : good_tail (m_rest st) -> exists st', rm LOOKB st c K0 = Some (st', c).
Proof.
  destruct st as [p t pos]. cbn [m_rest]. intros [E | (h & r & Hin & E)]; subst t.
  - eexists. reflexivity.
  - unfold dotted in Hin. cbn [In] in Hin.
    repeat (destruct Hin as [<-|Hin]; [eexists; unfold LOOKB, K0; crunch; reflexivity|]). contradiction.
Qed.

Lemma advn_skipn : forall j st, m_rest (advn st j) = skipn j (m_rest st).
Proof.
  induction j as [|j IH]; intros st; [reflexivity|]. cbn [advn].
  destruct (m_rest st) as [|ch t] eqn:E; [rewrite E; reflexivity|]. rewrite IH. reflexivity.
Qed.

(* ------------------------------------------------------------------ the parts of a rule after group 1 *)
Definition keys_ge2 (new : caps) : Prop := forall i, In i (map fst new) -> 2 <= i.

Lemma rm_g5look x body' tail st c k (Q : mstate * caps -> Prop) :
  m_rest st = (x :: body') ++ tail ->
  (forall j, 1 <= j -> j < length (x :: body') -> bad_look (skipn j (x :: body') ++ tail)) ->
  good_tail tail ->
  (forall cp, exists res, k (advn st (length (x :: body'))) ((5, cp) :: c) = Some res /\ Q res) ->
  exists res, rm (RSeq G5 (RLook LOOKB)) st c k = Some res /\ Q res.
Proof.
  intros Hr Hbad Hgood Hk.
  set (K5 := fun st1 c1 =>
               match rm LOOKB st1 ((5, Build_cap (m_pos st) (m_pos st1 - m_pos st)%N (m_rest st)) :: c1) K0 with
               | Some (_, c2) => k st1 c2
               | None => None
               end).
  assert (E : rm (RSeq G5 (RLook LOOKB)) st c k =
              match rep_loop (rm RAny) false (S (length (m_rest st))) 1 None st c K5 with
              | Some r => Some r
              | None => rm REndZ st c K5
              end) by reflexivity.
  rewrite E. clear E.
  destruct (Hk (Build_cap (m_pos st) (m_pos (advn st (length (x :: body'))) - m_pos st)%N (m_rest st)))
    as (res & Kres & Qres).
  exists res. split; [|exact Qres].
  rewrite (lazy_scan1 (rm RAny) ltac:(intros s c0 k0; reflexivity) x body' st tail c K5 res); try reflexivity.
  - assumption.
  - lia.
  - intros j H1 H2. unfold K5. rewrite look_fail; [reflexivity|].
    rewrite advn_skipn, Hr, skipn_app.
    replace (j - length (x :: body')) with 0 by lia. cbn [skipn]. apply Hbad; assumption.
  - unfold K5.
    destruct (look_succ (advn st (length (x :: body')))
                ((5, Build_cap (m_pos st) (m_pos (advn st (length (x :: body'))) - m_pos st)%N (m_rest st)) :: c))
      as [st' Es].
    + rewrite (advn_rest _ _ _ Hr). exact Hgood.
    + rewrite Es. exact Kres.
Qed.

Definition notlf (ch : N) : bool := xorb true (in_class [(10%N, 10%N)] ch).
Definition optline (o : option text) : text := match o with None => [] | Some opts => 32%N :: opts end.
Definition nolf (o : option text) : Prop := match o with None => True | Some opts => forallb notlf opts = true end.

Lemma notlf_spec ch : notlf ch = true <-> ch <> 10%N.
Proof.
  unfold notlf, in_class. cbn [existsb fst snd]. rewrite orb_false_r.
  destruct (N.leb 10 ch) eqn:A; destruct (N.leb ch 10) eqn:C; cbn;
    try apply N.leb_le in A; try apply N.leb_le in C; try apply N.leb_gt in A; try apply N.leb_gt in C;
    split; intros; try discriminate; try lia; try reflexivity.
Qed.

Lemma rm_opt o sym st c k R' (Q : mstate * caps -> Prop) :
  m_rest st = optline o ++ 10%N :: sym -> nolf o ->
  (forall new, keys_ge2 new ->
     exists res, rm R' (advn st (length (optline o))) (new ++ c) k = Some res /\ Q res) ->
  exists res, rm (RSeq OPT R') st c k = Some res /\ Q res.
Proof.
  intros Hr Hn Hk.
  assert (E : rm (RSeq OPT R') st c k =
              rep_loop (rm (RSeq (RGroup 2 (RLit 32)) (RGroup 3 (RRepeat true 0 None NOTLF)))) true
                       (S (length (m_rest st))) 0 (Some 1) st c (fun st1 c1 => rm R' st1 c1 k)) by reflexivity.
  rewrite E. clear E. rewrite opt_unfold by (rewrite Hr, app_length; simpl; lia).
  destruct o as [opts|]; cbn [optline] in *.
  - (* options present *)
    set (st1 := step st 32 (opts ++ 10%N :: sym)).
    set (c1 := (2, Build_cap (m_pos st) (m_pos st1 - m_pos st)%N (m_rest st)) :: c).
    set (KK := fun st2 c2 => if N.ltb (m_pos st) (m_pos st2) then rm R' st2 c2 k else None).
    set (K3 := fun st2 c2 => KK st2 ((3, Build_cap (m_pos st1) (m_pos st2 - m_pos st1)%N (m_rest st1)) :: c2)).
    assert (E : rm (RSeq (RGroup 2 (RLit 32)) (RGroup 3 (RRepeat true 0 None NOTLF))) st c KK =
                rep_loop (rm NOTLF) true (S (length (m_rest st1))) 0 None st1 c1 K3).
    { unfold c1, K3. cbn [rm]. rewrite Hr. cbn [app]. rewrite N.eqb_refl. reflexivity. }
    fold KK. rewrite E. clear E.
    destruct (Hk [(3, Build_cap (m_pos st1) (m_pos (advn st1 (length opts)) - m_pos st1)%N (m_rest st1));
                  (2, Build_cap (m_pos st) (m_pos st1 - m_pos st)%N (m_rest st))]) as (res & Kres & Qres).
    { intros i Hi. simpl in Hi. destruct Hi as [<-|[<-|[]]]; lia. }
    exists res. split; [|exact Qres].
    rewrite (greedy_full notlf (rm NOTLF) ltac:(intros s c0 k0; reflexivity) opts st1 (10%N :: sym) c1 K3 res);
      try reflexivity; try assumption; try lia.
    unfold K3, KK.
    assert (P : (m_pos st <? m_pos (advn st1 (length opts)))%N = true).
    { apply N.ltb_lt. rewrite (advn_pos opts st1 (10%N :: sym) eq_refl). unfold st1. simpl. lia. }
    rewrite P. cbn [length] in Kres. rewrite (advn_S st 32%N (opts ++ 10%N :: sym) (length opts) Hr) in Kres.
    exact Kres.
  - (* no options *)
    assert (E : rm (RSeq (RGroup 2 (RLit 32)) (RGroup 3 (RRepeat true 0 None NOTLF))) st c
                   (fun st1 c1 => if N.ltb (m_pos st) (m_pos st1) then rm R' st1 c1 k else None) = None).
    { cbn [rm]. rewrite Hr. reflexivity. }
    rewrite E. clear E. destruct (Hk []) as (res & Kres & Qres); [intros i []|].
    exists res. split; [exact Kres | exact Qres].
Qed.

Lemma rm_g4_seq sym st c k R' :
  m_rest st = 10%N :: sym ->
  rm (RSeq G4 R') st c k =
  rm R' (advn st 1) ((4, Build_cap (m_pos st) (m_pos (advn st 1) - m_pos st)%N (m_rest st)) :: c) k.
Proof. intros Hr. cbn [rm G4 advn]. rewrite Hr. reflexivity. Qed.

Lemma rm_g4 sym st c k :
  m_rest st = 10%N :: sym ->
  rm G4 st c k = k (advn st 1) ((4, Build_cap (m_pos st) (m_pos (advn st 1) - m_pos st)%N (m_rest st)) :: c).
Proof. intros Hr. cbn [rm G4 advn]. rewrite Hr. reflexivity. Qed.

(* what the engine needs to know about a successful rule match *)
Definition ends_at (tail : text) (c : caps) (res : mstate * caps) : Prop :=
  m_rest (fst res) = tail /\ exists new, snd res = new ++ c /\ keys_ge2 new.

Lemma keys_cons i cp new : 2 <= i -> keys_ge2 new -> keys_ge2 ((i, cp) :: new).
Proof. intros H1 H2 j [<-|I]; [assumption | auto]. Qed.

Lemma container_rest o tail st c :
  m_rest st = optline o ++ 10%N :: tail -> nolf o ->
  exists res, rm CONTAINER_REST st c K0 = Some res /\ ends_at tail c res.
Proof.
  intros Hr Hn. unfold CONTAINER_REST. apply (rm_opt o tail); try assumption.
  intros new Hnew. pose proof (advn_rest _ _ _ Hr) as R1.
  rewrite (rm_g4 tail) by assumption. eexists. split; [reflexivity|]. split; cbn [fst snd].
  - apply (advn_rest [10%N]). exact R1.
  - eexists ((4, _) :: new). split; [reflexivity|]. apply keys_cons; [lia | assumption].
Qed.

Lemma content_rest o x body' tail st c :
  m_rest st = optline o ++ 10%N :: (x :: body') ++ tail -> nolf o ->
  (forall j, 1 <= j -> j < length (x :: body') -> bad_look (skipn j (x :: body') ++ tail)) ->
  good_tail tail ->
  exists res, rm CONTENT_REST st c K0 = Some res /\ ends_at tail c res.
Proof.
  intros Hr Hn Hbad Hgood. unfold CONTENT_REST. apply (rm_opt o ((x :: body') ++ tail)); try assumption.
  intros new Hnew. pose proof (advn_rest _ _ _ Hr) as R1.
  rewrite (rm_g4_seq ((x :: body') ++ tail)) by assumption.
  pose proof (advn_rest [10%N] _ _ R1) as R2. cbn [length] in R2.
  apply (rm_g5look x body' tail); try assumption.
  intros cp. eexists. split; [reflexivity|]. split; cbn [fst snd].
  - apply (advn_rest (x :: body')). exact R2.
  - eexists ((5, cp) :: (4, _) :: new). split; [reflexivity|].
    apply keys_cons; [lia|]. apply keys_cons; [lia | assumption].
Qed.
