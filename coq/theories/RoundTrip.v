(* RoundTrip.v — C01 for whole call sequences: the reader model run on the bytes the writer model produced
   yields exactly one record per accepted call (after the main header's), in order, with the id / level /
   options / content written, and ends normally.
   Built on the per-section blocks (RoundTripContent / RoundTripGuess / RoundTripAll for the content,
   WriterCanonFacts for the header, WriterFacts for the order, Encodings for the inheritance); [read_content]
   is never unfolded here. *)
From Coq Require Import List Arith NArith ZArith Bool Strings.Byte Lia.
From Coq Require Strings.String.
From DX Require Import Bytes Res Codec Text Sections Header Stream Json Reader Writer.
From DX Require HeaderFacts TextFacts StreamFacts SectionsFacts ReaderSpecFacts WriterFacts WriterCanonFacts Encodings.
From DX Require Import RoundTripBase RoundTripSim RoundTripStep.
From DX Require Import RoundTripCodec RoundTripContent.
From DXGen Require GenSections GenText GenCodecs.
Import ListNotations.
Import String.StringSyntax.
Local Open Scope string_scope.
Local Open Scope list_scope.

(* ------------------------------------------------------------------------------------------------ *)
(* 3. the per-call step, all five calls                                                                *)

Theorem sim_step : forall orc chunk s s' st valid encs prev c,
  Sim s st valid encs prev -> call_good c -> meta_oracle_at orc s c -> meta_guess_b s c = true -> oracle_ok_call orc c ->
  do_call c s = (s', Ok tt) -> 0 < chunk ->
  (Z.of_nat (length (w_out s')) <= sys_maxsize)%Z ->
  step_ok orc chunk s st valid encs prev c s'.
Proof.
  intros orc chunk s s' st valid encs prev c HS Hg Hmenc Hguess Horc Hcall Hchunk Hsize.
  destruct c as [e|e|text enc ind le mt|md enc fmt|content dt enc le]; cbn [call_good] in Hg.
  - destruct (sim_step_container orc chunk (NewChange e) e s s' st valid encs prev (or_introl eq_refl) HS Hg Hcall Hchunk)
      as (new & Hout & Hstep).
    exists new. split; [exact Hout|]. intros rest Hrem.
    destruct (Hstep rest Hrem) as (st' & v' & e' & p' & H1 & H2 & H3 & H4).
    exists st', v', e', p'. split; [exact H1|]. split; [exact H2|]. split; [exact H3|].
    rewrite H4. cbn [call_nlines]. lia.
  - destruct (sim_step_container orc chunk (NewFile e) e s s' st valid encs prev (or_intror eq_refl) HS Hg Hcall Hchunk)
      as (new & Hout & Hstep).
    exists new. split; [exact Hout|]. intros rest Hrem.
    destruct (Hstep rest Hrem) as (st' & v' & e' & p' & H1 & H2 & H3 & H4).
    exists st', v', e', p'. split; [exact H1|]. split; [exact H2|]. split; [exact H3|].
    rewrite H4. cbn [call_nlines]. lia.
  - destruct Hg as (He & Hi & Hl). eapply sim_step_preamble; eauto.
  - destruct Hg as (He & kv & ->). eapply sim_step_meta; eauto.
  - destruct Hg as (He & Hl). eapply sim_step_diff; eauto.
Qed.

(* ------------------------------------------------------------------------------------------------ *)
(* 4. whole sequences                                                                                  *)

(* every call of the sequence was accepted *)
Definition accepted (s : wstate) (cs : list call) : Prop :=
  Forall (fun r => fst r = Ok tt) (fst (run_calls s cs)).

Fixpoint expected_records (s : wstate) (line : Z) (cs : list call) : list record :=
  match cs with
  | [] => []
  | c :: t => expected_record_of s line c
              :: expected_records (fst (do_call c s)) (line + 1 + Z.of_nat (call_nlines s c)) t
  end.

Fixpoint guesses_ok (s : wstate) (cs : list call) : Prop :=
  match cs with
  | [] => True
  | c :: t => meta_guess_b s c = true /\ guesses_ok (fst (do_call c s)) t
  end.

Definition oracle_ok (orc : oracle) (cs : list call) : Prop := Forall (oracle_ok_call orc) cs.

(* the json.loads oracle for the write_meta calls made with NO encoding in force (possible only in a writer
   constructed with encoding=None): since the fix of write_meta such a call is accepted and the JSON is written,
   and read back, as BYTES; there the oracle must answer  loads (dumps j ++ b"\n") = j  for the bytes
   ([meta_oracle_at], RoundTripStep.v).  Nothing is required where an encoding is in force ([meta_enc_b]). *)
Fixpoint metas_oracle_ok (orc : oracle) (s : wstate) (cs : list call) : Prop :=
  match cs with
  | [] => True
  | c :: t => meta_oracle_at orc s c /\ metas_oracle_ok orc (fst (do_call c s)) t
  end.

Lemma metas_oracle_of_encoded : forall orc cs s, metas_encoded s cs -> metas_oracle_ok orc s cs.
Proof.
  intros orc. induction cs as [|c t IH]; intros s H; [exact I|]. cbn [metas_encoded metas_oracle_ok] in *.
  destruct H as [H1 H2]. split; [left; exact H1|apply IH; exact H2].
Qed.

Lemma accepted_cons : forall s c t, accepted s (c :: t) ->
  exists s', do_call c s = (s', Ok tt) /\ accepted s' t.
Proof.
  intros s c t H. unfold accepted in H. rewrite WriterFacts.run_calls_cons in H. cbn [fst] in H.
  inversion H as [|? ? H1 H2]; subst. cbn [fst] in H1.
  destruct (do_call c s) as [s' r] eqn:E. cbn [fst snd] in *. subst r.
  exists s'. split; [reflexivity|exact H2].
Qed.

Lemma sim_run : forall orc chunk cs s st valid encs prev,
  Sim s st valid encs prev -> Forall call_good cs -> accepted s cs -> metas_oracle_ok orc s cs -> guesses_ok s cs ->
  oracle_ok orc cs ->
  0 < chunk -> (Z.of_nat (length (w_out (snd (run_calls s cs)))) <= sys_maxsize)%Z ->
  forall suf rest, w_out (snd (run_calls s cs)) = w_out s ++ suf -> remaining (st_stream st) = suf ++ rest ->
  exists st' v' e' p',
    ReaderSpecFacts.run orc chunk st valid encs prev (expected_records s (st_linenum st) cs) st' v' e' p' /\
    remaining (st_stream st') = rest.
Proof.
  intros orc chunk. induction cs as [|c t IH]; intros s st valid encs prev HS Hg Hacc Hme Hgs Horc Hchunk Hsize suf rest Hout Hrem.
  - cbn [run_calls snd] in Hout. rewrite <- (app_nil_r (w_out s)) in Hout at 1. apply app_inv_head in Hout. subst suf.
    exists st, valid, encs, prev. split; [constructor|exact Hrem].
  - destruct (accepted_cons _ _ _ Hacc) as (s' & Hcall & Hacc').
    inversion Hg as [|? ? Hgc Hgt]; subst. inversion Horc as [|? ? Hoc Hot]; subst.
    cbn [guesses_ok] in Hgs. destruct Hgs as [Hgc' Hgt']. rewrite Hcall in Hgt'. cbn [fst] in Hgt'.
    cbn [metas_oracle_ok] in Hme. destruct Hme as [Hmc Hmt]. rewrite Hcall in Hmt. cbn [fst] in Hmt.
    rewrite WriterFacts.run_calls_cons in Hout, Hsize. cbn [snd] in Hout, Hsize. rewrite Hcall in Hout, Hsize. cbn [fst] in Hout, Hsize.
    destruct (WriterFacts.C09_append_run t s') as [suf' Hsuf'].
    assert (Hsize' : (Z.of_nat (length (w_out s')) <= sys_maxsize)%Z).
    { rewrite Hsuf', app_length in Hsize. lia. }
    destruct (sim_step orc chunk s s' st valid encs prev c HS Hgc Hmc Hgc' Hoc Hcall Hchunk Hsize') as (new & Hnew & Hstep).
    assert (Esuf : suf = new ++ suf').
    { rewrite Hsuf', Hnew, <- app_assoc in Hout. apply app_inv_head in Hout. symmetry. exact Hout. }
    subst suf. rewrite <- app_assoc in Hrem.
    destruct (Hstep (suf' ++ rest) Hrem) as (st1 & v1 & e1 & p1 & Hy & HS1 & Hrem1 & Hline1).
    destruct (IH s' st1 v1 e1 p1 HS1 Hgt Hacc' Hmt Hgt' Hot Hchunk Hsize suf' rest Hsuf' Hrem1) as (st' & v' & e' & p' & Hrun & Hrem').
    exists st', v', e', p'. split; [|exact Hrem'].
    cbn [expected_records]. rewrite Hcall. cbn [fst]. rewrite <- Hline1.
    econstructor; [exact Hy|exact Hrun].
Qed.

(* at the end of the data the iteration stops normally *)
Lemma iter_step_eof : forall orc chunk st valid encs prev,
  remaining (st_stream st) = [] -> iter_step orc chunk st valid encs prev = SDone.
Proof.
  intros orc chunk st valid encs prev H. unfold iter_step, read_header. rewrite H. cbn [length next_nonblank].
  unfold read_until. rewrite H. cbn [length read_until_chunked]. unfold sread. rewrite H.
  rewrite firstn_nil. cbn. reflexivity.
Qed.

(* [metas_oracle_ok orc s0 cs]: at every write_meta of the program an encoding is in force, or else the oracle
   answers for the JSON BYTES.  Without it the statement is false of the fixed writer: DiffXWriter(encoding=None) now
   accepts write_meta, writes the JSON as bytes, and the reader asks the json oracle about bytes, which [oracle_ok]
   (the JSON text) says nothing about ([C01_round_trip_unencoded_refuted] in RoundTripCor.v). *)
Theorem C01_round_trip : forall enc0 ver s0 cs orc chunk,
  writer_init enc0 ver = (s0, Ok tt) -> enc_ok enc0 ->
  Forall call_good cs -> accepted s0 cs -> metas_oracle_ok orc s0 cs -> guesses_ok s0 cs -> oracle_ok orc cs ->
  0 < chunk -> (Z.of_nat (length (w_out (snd (run_calls s0 cs)))) <= sys_maxsize)%Z ->
  read_all orc chunk (w_out (snd (run_calls s0 cs))) = (main_record enc0 ver :: expected_records s0 1 cs, TEnd).
Proof.
  intros enc0 ver s0 cs orc chunk Hinit He Hg Hacc Hme Hgs Horc Hchunk Hsize.
  destruct (WriterFacts.C09_append_run cs s0) as [suf Hsuf].
  set (data := w_out (snd (run_calls s0 cs))) in *.
  destruct (sim_init orc chunk enc0 ver s0 Hinit He Hchunk suf) as (st1 & v1 & e1 & Hmain & HS1 & Hrem1 & Hline1 & _).
  rewrite <- Hsuf in Hmain.
  destruct (sim_run orc chunk cs s0 st1 v1 e1 0 HS1 Hg Hacc Hme Hgs Horc Hchunk Hsize suf [] Hsuf)
    as (st' & v' & e' & p' & Hrun & Hrem'); [rewrite app_nil_r; exact Hrem1|].
  rewrite Hline1 in Hrun.
  assert (Hrun0 : ReaderSpecFacts.run orc chunk (ReaderSpecFacts.init_state data) [GenSections.sec_main] [None] 0
                    (main_record enc0 ver :: expected_records s0 1 cs) st' v' e' p').
  { econstructor; [exact Hmain|exact Hrun]. }
  destruct (ReaderSpecFacts.run_progress _ _ _ _ _ _ _ _ _ _ _ Hchunk Hrun0 (StreamFacts.wf_initial data)) as (W & D & P).
  set (rs := main_record enc0 ver :: expected_records s0 1 cs) in *.
  assert (Hlen : length rs <= length data).
  { unfold StreamFacts.wf_rstate, StreamFacts.wf_stream in W.
    unfold ReaderSpecFacts.sdata, ReaderSpecFacts.spos, ReaderSpecFacts.init_state in *. cbn [st_stream s_data s_pos] in *.
    rewrite D in W. lia. }
  unfold read_all. fold (ReaderSpecFacts.init_state data).
  replace (S (length data)) with (length rs + S (length data - length rs)) by lia.
  rewrite (ReaderSpecFacts.iter_loop_run _ _ _ _ _ _ _ _ _ _ _ Hrun0).
  cbn [iter_loop]. rewrite (iter_step_eof _ _ _ _ _ _ Hrem').
  rewrite app_nil_r, HeaderFacts.frev_is_rev, rev_involutive. reflexivity.
Qed.
