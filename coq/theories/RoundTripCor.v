(* RoundTripCor.v — corollaries of C01_round_trip (structure, content, options), the unconditional form for the
   single-byte-newline codecs, and a worked example. *)
From Coq Require Import List Arith NArith ZArith Bool Strings.Byte Lia.
From Coq Require Strings.String.
From DX Require Import Bytes Res Codec Text Sections Header Stream Json Reader Writer.
From DX Require HeaderFacts TextFacts StreamFacts SectionsFacts ReaderSpecFacts WriterFacts WriterCanonFacts Encodings.
From DX Require Import RoundTripBase RoundTripSim RoundTripStep RoundTrip.
From DX Require Import RoundTripCodec RoundTripContent RoundTripAll.
From DXGen Require GenSections GenText GenCodecs.
Import ListNotations.
Import String.StringSyntax.
Local Open Scope string_scope.
Local Open Scope list_scope.
Import WriterCanonFacts.

(* ------------------------------------------------------------------------------------------------ *)
(* 5a. structure: one record per accepted call plus the main header, in order, ids and levels as written *)

Fixpoint call_sections (s : wstate) (cs : list call) : list (bytes * nat * bytes) :=
  match cs with
  | [] => []
  | c :: t => (WriterFacts.target s c, call_dots s c, call_name c) :: call_sections (fst (do_call c s)) t
  end.

Lemma expected_records_sections : forall cs s line,
  map (fun r => (r_id r, r_level r, r_type r)) (expected_records s line cs) = call_sections s cs.
Proof. induction cs as [|c t IH]; intros s line; [reflexivity|]. cbn [expected_records call_sections map]. rewrite IH. reflexivity. Qed.

Lemma expected_records_length : forall cs s line, length (expected_records s line cs) = length cs.
Proof. induction cs as [|c t IH]; intros s line; [reflexivity|]. cbn [expected_records length]. rewrite IH. reflexivity. Qed.

(* the id is the section name behind as many dots as the level *)
Lemma target_build_id : forall s c, WriterFacts.target s c = build_id (call_dots s c) (call_name c).
Proof. intros s c. destruct c; cbn [WriterFacts.target call_dots call_name]; rewrite ?Nat.add_sub; reflexivity. Qed.

Theorem C01_structure : forall enc0 ver s0 cs orc chunk,
  writer_init enc0 ver = (s0, Ok tt) -> enc_ok enc0 ->
  Forall call_good cs -> accepted s0 cs -> metas_oracle_ok orc s0 cs -> guesses_ok s0 cs -> oracle_ok orc cs ->
  0 < chunk -> (Z.of_nat (length (w_out (snd (run_calls s0 cs)))) <= sys_maxsize)%Z ->
  let rs := fst (read_all orc chunk (w_out (snd (run_calls s0 cs)))) in
  snd (read_all orc chunk (w_out (snd (run_calls s0 cs)))) = TEnd /\
  length rs = S (length cs) /\
  map (fun r => (r_id r, r_level r, r_type r)) rs = (GenSections.sec_main, 0, B "diffx") :: call_sections s0 cs /\
  Forall (fun r => r_id r = build_id (r_level r) (r_type r)) rs.
Proof.
  intros enc0 ver s0 cs orc chunk Hi He Hg Ha Hme Hgs Ho Hc Hs rs. unfold rs.
  rewrite (C01_round_trip enc0 ver s0 cs orc chunk Hi He Hg Ha Hme Hgs Ho Hc Hs). cbn [fst snd].
  split; [reflexivity|]. split; [cbn [length]; rewrite expected_records_length; reflexivity|].
  split; [cbn [map]; rewrite expected_records_sections; reflexivity|].
  constructor; [reflexivity|].
  generalize 1%Z as line. generalize s0 as s. clear.
  induction cs as [|c t IH]; intros s line; [constructor|]. cbn [expected_records]. constructor; [|apply IH].
  unfold expected_record_of, expected_record. cbn [r_id r_level r_type]. apply target_build_id.
Qed.

(* ------------------------------------------------------------------------------------------------ *)
(* 5b. content: what was written, up to the appended final newline                                     *)

Definition content_matches (c : call) (p : payload) : Prop :=
  match c with
  | NewChange _ | NewFile _ => p = PNone
  | WritePreamble (WStr t) _ _ _ _ =>
      exists nl, In nl (map snd GenText.newline_formats) /\
                 ((suffixb N.eqb nl t = true /\ p = PText t) \/ (suffixb N.eqb nl t = false /\ p = PText (t ++ nl)))
  | WriteMeta (WDict j) _ _ => p = PMeta j
  | WriteDiff (WBytes b) _ enc _ =>
      exists le nlb, In le GenText.line_endings_values /\ get_newline_for_type le (enc_bytes enc) = Ok nlb /\
                     ((bends nlb b = true /\ p = PBytes b) \/ (bends nlb b = false /\ p = PBytes (b ++ nlb)))
  | _ => True
  end.

Lemma payload_matches : forall s s' c line, call_good c -> do_call c s = (s', Ok tt) ->
  content_matches c (r_payload (expected_record_of s line c)).
Proof.
  intros s s' c line Hg Hcall. unfold expected_record_of, expected_record. cbn [r_payload].
  destruct c as [e|e|text enc ind le mt|md enc fmt|content dt enc le]; cbn [call_good] in Hg; try reflexivity.
  - destruct text; cbn [content_matches call_payload]; try exact I.
    destruct Hg as (_ & _ & Hle).
    destruct (resolve_le le t) as [le' nl] eqn:Er. cbn [snd].
    destruct (resolve_le_ok le t le' nl Hle Er) as (_ & _ & Hin).
    exists nl. split; [apply in_map_iff; exists (le', nl); auto|].
    unfold final_text. destruct (suffixb N.eqb nl t); [left|right]; auto.
  - destruct md; cbn [content_matches call_payload]; try exact I. reflexivity.
  - destruct (diff_call_inv _ _ _ _ _ _ Hcall) as (b & -> & _ & Hncs). cbn [content_matches call_payload call_prepared].
    destruct Hg as (Henc & Hle).
    destruct (C02_length_exact _ _ _ _ _ _ _ _ _ _ Hncs) as (body & le_out & h & Hprep & _).
    assert (Hb : b <> []).
    { destruct (prepare_content_unfold _ _ _ _ _ _ _ _ Hprep) as (_ & _ & _ & _ & _ & _ & _ & _ & Hnil & _).
      destruct b; [discriminate Hnil|discriminate]. }
    assert (Hcodec : exists eb, codec_ok eb /\ diff_enc_ok eb enc /\
                                forall le', get_newline_for_type le' (Some eb) = get_newline_for_type le' (enc_bytes enc)).
    { destruct Henc as [->|(eb & canon & cd & -> & Hlk)].
      - exists (B "ascii"). split; [exact codec_ok_sp_ascii|]. split; [apply dk_none; reflexivity|]. reflexivity.
      - exists eb. split; [eapply codec_ok_modelled; exact Hlk|].
        split; [apply dk_str; apply (spelling_facts _ _ _ Hlk)|].
        cbn [enc_bytes]. rewrite map_n_byte_ascii_text. reflexivity. }
    destruct Hcodec as (eb & Hok & Hdk & Hnle).
    destruct (diff_round_trip_ok eb Hok s b le enc Hb Hle Hdk)
      as (body2 & le' & nlb & lines & Hlv & Hnl & _ & _ & Hbody2 & _ & Hprep2 & _).
    rewrite Hprep2. cbn [fst]. exists le', nlb. split; [exact Hlv|]. split; [rewrite <- Hnle; exact Hnl|].
    rewrite Hbody2. destruct (bends nlb b); [left|right]; auto.
Qed.

Theorem C01_content : forall enc0 ver s0 cs orc chunk,
  writer_init enc0 ver = (s0, Ok tt) -> enc_ok enc0 ->
  Forall call_good cs -> accepted s0 cs -> metas_oracle_ok orc s0 cs -> guesses_ok s0 cs -> oracle_ok orc cs ->
  0 < chunk -> (Z.of_nat (length (w_out (snd (run_calls s0 cs)))) <= sys_maxsize)%Z ->
  exists r0 rs, fst (read_all orc chunk (w_out (snd (run_calls s0 cs)))) = r0 :: rs /\
                r_payload r0 = PNone /\ Forall2 content_matches cs (map r_payload rs).
Proof.
  intros enc0 ver s0 cs orc chunk Hi He Hg Ha Hme Hgs Ho Hc Hs.
  rewrite (C01_round_trip enc0 ver s0 cs orc chunk Hi He Hg Ha Hme Hgs Ho Hc Hs). cbn [fst].
  exists (main_record enc0 ver), (expected_records s0 1 cs). split; [reflexivity|]. split; [reflexivity|].
  clear Hi He Hme Hgs Ho Hc Hs. revert Hg Ha. generalize 1%Z as line. generalize s0 as s.
  induction cs as [|c t IH]; intros s line Hg Ha; [constructor|].
  destruct (accepted_cons _ _ _ Ha) as (s' & Hcall & Ha'). inversion Hg as [|? ? Hgc Hgt]; subst.
  cbn [expected_records map]. constructor; [eapply payload_matches; eauto|].
  rewrite Hcall. cbn [fst]. apply IH; assumption.
Qed.

(* ------------------------------------------------------------------------------------------------ *)
(* 5c. options: exactly the non-None entries of the dict handed to the header writer, in key order,
       integers as VInt (length, indent), strings as VStr; the dict holds the given and the derived values *)

Lemma assoc_get_notin {V} : forall (l : list (bytes * V)) k, ~ In k (map fst l) -> assoc_get beq k l = None.
Proof.
  induction l as [|[k' v'] l IH]; intros k H; [reflexivity|]. cbn [assoc_get].
  destruct (beq k k') eqn:E; [apply HeaderFacts.beq_spec in E; subst; exfalso; apply H; left; reflexivity|].
  apply IH. intro Hin. apply H. right. exact Hin.
Qed.

Lemma expected_opts_get : forall opts k, NoDup (map fst opts) ->
  assoc_get beq k (expected_opts opts) =
  match assoc_get beq k opts with
  | Some WNone | None => None
  | Some v => Some (rd_val v)
  end.
Proof.
  intros opts k Hnd. unfold expected_opts.
  set (so := present (sort_opts opts)).
  assert (Hso_in : forall kv, In kv so <-> In kv opts /\ is_present kv = true).
  { intros kv. unfold so, present. rewrite filter_In. split; intros [H1 H2]; split; try assumption.
    - apply (Permutation.Permutation_in _ (Permutation.Permutation_sym (sort_opts_perm opts))). exact H1.
    - apply (Permutation.Permutation_in _ (sort_opts_perm opts)). exact H1. }
  assert (Hnd_so : NoDup (map fst so)).
  { unfold so, present. apply NoDup_map_filter.
    eapply Permutation.Permutation_NoDup; [|exact Hnd]. apply Permutation.Permutation_map. apply sort_opts_perm. }
  assert (Hnd_e : NoDup (map fst (map (fun kv => (fst kv, rd_val (snd kv))) so))).
  { rewrite map_map. cbn [fst]. exact Hnd_so. }
  assert (Hnone : forall k, ~ In k (map fst so) -> assoc_get beq k (map (fun kv => (fst kv, rd_val (snd kv))) so) = None).
  { intros k0 H. apply assoc_get_notin. rewrite map_map. cbn [fst]. exact H. }
  destruct (assoc_get beq k opts) as [v|] eqn:Eg.
  - apply WriterFacts.assoc_get_In in Eg.
    destruct (is_present (k, v)) eqn:Ep.
    + assert (Hin : In (k, v) so) by (apply Hso_in; split; assumption).
      rewrite (nodup_assoc_get _ k (rd_val v) Hnd_e).
      * destruct v; try reflexivity. discriminate Ep.
      * apply in_map_iff. exists (k, v). split; [reflexivity|exact Hin].
    + assert (Ev : v = WNone) by (destruct v; try discriminate Ep; reflexivity). subst v.
      apply Hnone. intros Hin. apply in_map_iff in Hin. destruct Hin as ([k' v'] & E & Hin). cbn [fst] in E. subst k'.
      apply Hso_in in Hin. destruct Hin as [Hin Hp].
      assert (v' = WNone).
      { assert (E1 := nodup_assoc_get opts k v' Hnd Hin). assert (E2 := nodup_assoc_get opts k WNone Hnd Eg). congruence. }
      subst v'. discriminate Hp.
  - apply assoc_get_none_notin in Eg. apply Hnone. intros Hin. apply Eg.
    apply in_map_iff in Hin. destruct Hin as (kv & E & Hin). apply Hso_in in Hin.
    apply in_map_iff. exists kv. tauto.
Qed.

Lemma call_opts_nodup : forall c body le_out, NoDup (map fst (call_opts c body le_out)).
Proof.
  intros c body le_out.
  assert (H1 : forall (k : bytes) (v : wv), NoDup (map fst [(k, v)])).
  { intros k0 v0. cbn [map fst]. constructor; [intros []|constructor]. }
  destruct c; cbn [call_opts]; unfold content_opts, dict_set;
    repeat first [ apply assoc_set_nodup | apply H1 | constructor | destruct (true) ].
Qed.

(* the dict: given values (encoding, indent, mimetype / format / type) and derived ones (length, line_endings) *)
Lemma call_opts_get : forall c body le_out k,
  assoc_get beq k (call_opts c body le_out) =
  match c with
  | NewChange e | NewFile e => if beq k (B "encoding") then Some e else None
  | WritePreamble _ enc ind _ mt =>
      if beq k (B "line_endings") then Some le_out
      else if beq k (B "length") then Some (WInt (Z.of_nat (length body)))
      else if beq k (B "indent") then Some (preamble_indent ind)
      else if beq k (B "encoding") then Some enc
      else if beq k (B "mimetype") then Some mt else None
  | WriteMeta _ enc fmt =>
      if beq k (B "length") then Some (WInt (Z.of_nat (length body)))
      else if beq k (B "indent") then Some WNone
      else if beq k (B "encoding") then Some enc
      else if beq k (B "format") then Some (meta_fmt fmt) else None
  | WriteDiff _ dt enc _ =>
      if beq k (B "line_endings") then Some le_out
      else if beq k (B "length") then Some (WInt (Z.of_nat (length body)))
      else if beq k (B "indent") then Some WNone
      else if beq k (B "encoding") then Some enc
      else if beq k (B "type") then Some dt else None
  end.
Proof.
  intros c body le_out k. destruct c; cbn [call_opts]; try rewrite content_opts_get; cbn [andb]; try reflexivity;
    unfold dict_set; cbn [assoc_set assoc_get]; reflexivity.
Qed.

Theorem C01_options : forall enc0 ver s0 cs orc chunk,
  writer_init enc0 ver = (s0, Ok tt) -> enc_ok enc0 ->
  Forall call_good cs -> accepted s0 cs -> metas_oracle_ok orc s0 cs -> guesses_ok s0 cs -> oracle_ok orc cs ->
  0 < chunk -> (Z.of_nat (length (w_out (snd (run_calls s0 cs)))) <= sys_maxsize)%Z ->
  exists r0 rs, fst (read_all orc chunk (w_out (snd (run_calls s0 cs)))) = r0 :: rs /\
    r_opts r0 = expected_opts (main_opts enc0 ver) /\
    Forall2 (fun c r => exists body le_out,
               r_opts r = expected_opts (call_opts c body le_out) /\
               forall k, assoc_get beq k (r_opts r) =
                         match assoc_get beq k (call_opts c body le_out) with
                         | Some WNone | None => None
                         | Some v => Some (rd_val v)
                         end) cs rs.
Proof.
  intros enc0 ver s0 cs orc chunk Hi He Hg Ha Hme Hgs Ho Hc Hs.
  rewrite (C01_round_trip enc0 ver s0 cs orc chunk Hi He Hg Ha Hme Hgs Ho Hc Hs). cbn [fst].
  exists (main_record enc0 ver), (expected_records s0 1 cs). split; [reflexivity|]. split; [reflexivity|].
  generalize 1%Z as line. generalize s0 as s. clear.
  induction cs as [|c t IH]; intros s line; [constructor|]. cbn [expected_records]. constructor; [|apply IH].
  exists (fst (call_prepared s c)), (snd (call_prepared s c)). split; [reflexivity|].
  intros k. unfold expected_record_of, expected_record. cbn [r_opts]. apply expected_opts_get. apply call_opts_nodup.
Qed.

(* ------------------------------------------------------------------------------------------------ *)
(* the metadata newline guess needs no hypothesis when every encoding in play is ascii, latin-1, utf-8 or
   utf-8-sig (any catalogue spelling) or None *)

Definition enc_aligned (v : wv) : Prop :=
  v = WNone \/ exists eb canon c, v = WStr (ascii_text eb) /\ lookup_codec eb = LOk canon c /\ aligned_canon canon.

Definition call_enc (c : call) : wv :=
  match c with
  | NewChange e | NewFile e => e
  | WritePreamble _ e _ _ _ => e | WriteMeta _ e _ => e | WriteDiff _ _ e _ => e
  end.

Lemma do_call_stack_aligned : forall c s, w_stack s <> [] -> Forall enc_aligned (w_stack s) -> enc_aligned (call_enc c) ->
  w_stack (fst (do_call c s)) <> [] /\ Forall enc_aligned (w_stack (fst (do_call c s))).
Proof.
  intros c s Hne Hst Hc.
  assert (Hcont : forall name lvl e, 1 <= lvl -> enc_aligned e ->
            w_stack (fst (new_container_section name lvl e [] s)) <> [] /\
            Forall enc_aligned (w_stack (fst (new_container_section name lvl e [] s)))).
  { intros name lvl e Hl Hea. rewrite WriterFacts.ncs_eq by assumption.
    destruct (validate_section s _) as [[]|err]; [|cbn [fst]; auto].
    destruct (render_header _ _) as [h|err]; [|cbn [fst]; auto]. cbv zeta. cbn [fst w_stack].
    split; [discriminate|]. pose proof (Forall_skipn enc_aligned (length (w_stack s) - lvl) _ Hst) as Hsk.
    constructor; [|exact Hsk]. destruct (wv_truthy e); [exact Hea|].
    destruct (skipn _ (w_stack s)) as [|x l]; [left; reflexivity|]. inversion Hsk; assumption. }
  destruct c as [e|e|text enc ind le mt|md enc fmt|content dt enc le]; cbn [call_enc] in Hc.
  - apply Hcont; [vm_compute; lia|exact Hc].
  - apply Hcont; [vm_compute; lia|exact Hc].
  - destruct (do_call _ s) as [s' r] eqn:E. cbn [fst].
    pose proof (fun H => Encodings.content_call_stack _ _ _ _ H E) as Hs. rewrite Hs by reflexivity. auto.
  - destruct (do_call _ s) as [s' r] eqn:E. cbn [fst].
    pose proof (fun H => Encodings.content_call_stack _ _ _ _ H E) as Hs. rewrite Hs by reflexivity. auto.
  - destruct (do_call _ s) as [s' r] eqn:E. cbn [fst].
    pose proof (fun H => Encodings.content_call_stack _ _ _ _ H E) as Hs. rewrite Hs by reflexivity. auto.
Qed.

Lemma meta_guess_aligned : forall c s, Forall enc_aligned (w_stack s) -> enc_aligned (call_enc c) -> meta_guess_b s c = true.
Proof.
  intros c s Hst Hc. destruct c as [e|e|text enc ind le mt|md enc fmt|content dt enc le]; try reflexivity.
  destruct md; try reflexivity. cbn [call_enc] in Hc. unfold meta_guess_b.
  assert (He : enc_aligned (Encodings.w_content_encoding enc true (hd WNone (w_stack s)))).
  { unfold Encodings.w_content_encoding. destruct (negb (wv_truthy enc) && true); [|exact Hc].
    destruct (w_stack s) as [|x l]; [left; reflexivity|]. inversion Hst; assumption. }
  destruct He as [->|(eb & canon & cd & -> & Hlk & Hal)]; [reflexivity|].
  cbn [enc_bytes]. rewrite map_n_byte_ascii_text. unfold aligned_b. rewrite Hlk.
  apply (HeaderFacts.mem_In byte_eqb HeaderFacts.byte_eqb_spec) in Hal. unfold beq. rewrite Hal. reflexivity.
Qed.

Theorem guesses_ok_aligned : forall cs s, w_stack s <> [] -> Forall enc_aligned (w_stack s) ->
  Forall (fun c => enc_aligned (call_enc c)) cs -> guesses_ok s cs.
Proof.
  induction cs as [|c t IH]; intros s Hne Hst Hcs; [exact I|]. inversion Hcs as [|? ? Hc Ht]; subst.
  cbn [guesses_ok]. split; [apply meta_guess_aligned; assumption|].
  destruct (do_call_stack_aligned c s Hne Hst Hc) as [Hne' Hst']. apply IH; assumption.
Qed.

(* ------------------------------------------------------------------------------------------------ *)
(* [metas_encoded]: a writer constructed with an encoding (pydiffx's default is 'utf-8') has one in force at
   every call, whatever the program                                                                    *)

Definition truthy_stack (s : wstate) : Prop := Forall (fun e => wv_truthy e = true) (w_stack s).

Lemma do_call_stack_truthy : forall c s, w_stack s <> [] -> truthy_stack s ->
  w_stack (fst (do_call c s)) <> [] /\ truthy_stack (fst (do_call c s)).
Proof.
  unfold truthy_stack. intros c s Hne Hst.
  assert (Hcont : forall name lvl e, 1 <= lvl ->
            w_stack (fst (new_container_section name lvl e [] s)) <> [] /\
            Forall (fun e => wv_truthy e = true) (w_stack (fst (new_container_section name lvl e [] s)))).
  { intros name lvl e Hl. rewrite WriterFacts.ncs_eq by assumption.
    destruct (validate_section s _) as [[]|err]; [|cbn [fst]; auto].
    destruct (render_header _ _) as [h|err]; [|cbn [fst]; auto]. cbv zeta. cbn [fst w_stack].
    split; [discriminate|].
    pose proof (Forall_skipn (fun e => wv_truthy e = true) (length (w_stack s) - lvl) _ Hst) as Hsk.
    constructor; [|exact Hsk]. destruct (wv_truthy e) eqn:E; [exact E|].
    destruct (skipn _ (w_stack s)) as [|x l] eqn:Es; [|inversion Hsk; assumption].
    exfalso. apply (f_equal (@length _)) in Es. rewrite skipn_length in Es. cbn [length] in Es.
    assert (1 <= length (w_stack s)) by (destruct (w_stack s); [congruence|cbn; lia]). lia. }
  destruct c as [e|e|text enc ind le mt|md enc fmt|content dt enc le].
  - apply Hcont. vm_compute; lia.
  - apply Hcont. vm_compute; lia.
  - destruct (do_call _ s) as [s' r] eqn:E. cbn [fst].
    pose proof (fun H => Encodings.content_call_stack _ _ _ _ H E) as Hs. rewrite Hs by reflexivity. auto.
  - destruct (do_call _ s) as [s' r] eqn:E. cbn [fst].
    pose proof (fun H => Encodings.content_call_stack _ _ _ _ H E) as Hs. rewrite Hs by reflexivity. auto.
  - destruct (do_call _ s) as [s' r] eqn:E. cbn [fst].
    pose proof (fun H => Encodings.content_call_stack _ _ _ _ H E) as Hs. rewrite Hs by reflexivity. auto.
Qed.

Lemma meta_enc_truthy : forall c s, w_stack s <> [] -> truthy_stack s -> meta_enc_b s c = true.
Proof.
  intros c s Hne Hst. destruct c as [e|e|text enc ind le mt|md enc fmt|content dt enc le]; try reflexivity.
  cbn [meta_enc_b]. unfold Encodings.w_content_encoding. destruct (wv_truthy enc) eqn:E; cbn [negb andb]; [exact E|].
  unfold truthy_stack in Hst. destruct (w_stack s) as [|x l]; [congruence|]. inversion Hst; assumption.
Qed.

Theorem metas_encoded_truthy : forall cs s, w_stack s <> [] -> truthy_stack s -> metas_encoded s cs.
Proof.
  induction cs as [|c t IH]; intros s Hne Hst; [exact I|]. cbn [metas_encoded].
  split; [apply meta_enc_truthy; assumption|].
  destruct (do_call_stack_truthy c s Hne Hst) as [Hne' Hst']. apply IH; assumption.
Qed.

Lemma init_stack : forall enc0 ver s0, writer_init enc0 ver = (s0, Ok tt) ->
  w_stack s0 = [enc0; enc0].
Proof.
  intros enc0 ver s0 Hinit. unfold writer_init in Hinit.
  destruct (in_strset ver GenText.versions) as [[|]|]; try (inversion Hinit; fail).
  rewrite WriterFacts.ncs_eq in Hinit by (first [discriminate | unfold GenText.writer_level_main; lia]).
  destruct (validate_section _ _) as [[]|err]; [|inversion Hinit].
  destruct (render_header _ _) as [h|err]; [|inversion Hinit]. cbv zeta in Hinit.
  inversion Hinit. cbn [w_stack length Nat.sub skipn hd]. destruct (wv_truthy enc0); reflexivity.
Qed.

Theorem metas_encoded_init : forall enc0 ver s0 cs,
  writer_init enc0 ver = (s0, Ok tt) -> wv_truthy enc0 = true -> metas_encoded s0 cs.
Proof.
  intros enc0 ver s0 cs Hinit Ht. pose proof (init_stack enc0 ver s0 Hinit) as Hst.
  apply metas_encoded_truthy; [rewrite Hst; discriminate|]. unfold truthy_stack. rewrite Hst.
  constructor; [exact Ht|]. constructor; [exact Ht|constructor].
Qed.

(* the flagship theorem for a writer constructed with an encoding: no hypothesis about write_meta's encodings *)
Theorem C01_round_trip_encoded : forall enc0 ver s0 cs orc chunk,
  writer_init enc0 ver = (s0, Ok tt) -> enc_ok enc0 -> wv_truthy enc0 = true ->
  Forall call_good cs -> accepted s0 cs -> guesses_ok s0 cs -> oracle_ok orc cs ->
  0 < chunk -> (Z.of_nat (length (w_out (snd (run_calls s0 cs)))) <= sys_maxsize)%Z ->
  read_all orc chunk (w_out (snd (run_calls s0 cs))) = (main_record enc0 ver :: expected_records s0 1 cs, TEnd).
Proof.
  intros enc0 ver s0 cs orc chunk Hinit He Ht Hg Hacc Hgs Horc Hchunk Hsize.
  apply C01_round_trip; try assumption. apply metas_oracle_of_encoded. eapply metas_encoded_init; eauto.
Qed.

(* [metas_oracle_ok] added (see RoundTrip.C01_round_trip): [enc_aligned] allows None everywhere, and a write_meta
   with no encoding in force is now accepted and read back as bytes *)
Theorem C01_round_trip_aligned : forall enc0 ver s0 cs orc chunk,
  writer_init enc0 ver = (s0, Ok tt) -> enc_aligned enc0 ->
  Forall call_good cs -> Forall (fun c => enc_aligned (call_enc c)) cs -> accepted s0 cs -> metas_oracle_ok orc s0 cs ->
  oracle_ok orc cs ->
  0 < chunk -> (Z.of_nat (length (w_out (snd (run_calls s0 cs)))) <= sys_maxsize)%Z ->
  read_all orc chunk (w_out (snd (run_calls s0 cs))) = (main_record enc0 ver :: expected_records s0 1 cs, TEnd).
Proof.
  intros enc0 ver s0 cs orc chunk Hinit He Hg Hal Hacc Hme Horc Hchunk Hsize.
  assert (He' : enc_ok enc0).
  { destruct He as [->|(eb & canon & cd & -> & Hlk & _)]; [left; reflexivity|right; eauto]. }
  apply C01_round_trip; try assumption.
  destruct (sim_init orc chunk enc0 ver s0 Hinit He' Hchunk []) as (st1 & v1 & e1 & _ & HS & _).
  destruct (sim_stack _ _ _ _ _ HS) as (p & e0 & Hst & _).
  apply guesses_ok_aligned; [eapply sim_stack_ne; eauto| |exact Hal].
  (* the constructor's stack is [enc0; enc0] *)
  unfold writer_init in Hinit.
  destruct (in_strset ver GenText.versions) as [[|]|]; try (inversion Hinit; fail).
  rewrite WriterFacts.ncs_eq in Hinit by (first [discriminate | unfold GenText.writer_level_main; lia]).
  destruct (validate_section _ _) as [[]|err]; [|inversion Hinit].
  destruct (render_header _ _) as [h|err]; [|inversion Hinit]. cbv zeta in Hinit.
  inversion Hinit. cbn [w_stack length Nat.sub skipn hd].
  constructor; [destruct (wv_truthy enc0); exact He|]. constructor; [exact He|constructor].
Qed.

(* ------------------------------------------------------------------------------------------------ *)
(* call sequences with rejected calls in between: a rejected call writes nothing and changes nothing (C09), so
   the output is that of the accepted calls alone *)

Fixpoint ok_calls (s : wstate) (cs : list call) : list call :=
  match cs with
  | [] => []
  | c :: t => match do_call c s with
              | (s', Ok _) => c :: ok_calls s' t
              | (s', Err _) => ok_calls s' t
              end
  end.

Lemma ok_calls_run : forall cs s, WriterFacts.reachable s ->
  snd (run_calls s cs) = snd (run_calls s (ok_calls s cs)) /\ accepted s (ok_calls s cs).
Proof.
  induction cs as [|c t IH]; intros s Hs; [split; [reflexivity|constructor]|].
  cbn [ok_calls]. destruct (do_call c s) as [s' r] eqn:E.
  pose proof (WriterFacts.reachable_step c s s' r Hs E) as Hs'.
  destruct r as [[]|e].
  - destruct (IH s' Hs') as [H1 H2]. rewrite !WriterFacts.run_calls_cons. cbn [snd]. rewrite E. cbn [fst]. split; [exact H1|].
    unfold accepted. rewrite WriterFacts.run_calls_cons. cbn [fst]. rewrite E. cbn [fst snd]. constructor; [reflexivity|exact H2].
  - pose proof (WriterFacts.C09_atomic s Hs c s' e E) as ->.
    rewrite WriterFacts.run_calls_cons. cbn [snd]. rewrite E. cbn [fst]. apply IH. exact Hs.
Qed.

Lemma ok_calls_Forall : forall (P : call -> Prop) cs s, Forall P cs -> Forall P (ok_calls s cs).
Proof.
  intros P. induction cs as [|c t IH]; intros s H; [constructor|]. inversion H; subst. cbn [ok_calls].
  destruct (do_call c s) as [s' [u|e]]; [constructor; [assumption|]|]; apply IH; assumption.
Qed.

Theorem C01_round_trip_mixed : forall enc0 ver s0 cs orc chunk,
  writer_init enc0 ver = (s0, Ok tt) -> enc_ok enc0 ->
  Forall call_good cs -> metas_oracle_ok orc s0 (ok_calls s0 cs) -> guesses_ok s0 (ok_calls s0 cs) -> oracle_ok orc cs ->
  0 < chunk -> (Z.of_nat (length (w_out (snd (run_calls s0 cs)))) <= sys_maxsize)%Z ->
  read_all orc chunk (w_out (snd (run_calls s0 cs)))
  = (main_record enc0 ver :: expected_records s0 1 (ok_calls s0 cs), TEnd).
Proof.
  intros enc0 ver s0 cs orc chunk Hinit He Hg Hme Hgs Horc Hchunk Hsize.
  destruct (ok_calls_run cs s0 (WriterFacts.reachable_init _ _ _ Hinit)) as [Hrun Hacc].
  rewrite Hrun in *. apply C01_round_trip; try assumption; apply ok_calls_Forall; assumption.
Qed.

(* ------------------------------------------------------------------------------------------------ *)
(* why [metas_oracle_ok] is a hypothesis of C01_round_trip: without it the statement is false of the fixed writer.
   DiffXWriter(encoding=None); write_meta({'k': 1}): accepted (before the fix: TypeError), the JSON is written as
   bytes under a header without encoding, the reader yields bytes and asks json.loads about BYTES; an oracle that
   satisfies [oracle_ok] (it answers for the JSON TEXT) need not answer that question. *)
Example C01_round_trip_unencoded_refuted :
  exists enc0 ver s0 cs orc chunk,
    writer_init enc0 ver = (s0, Ok tt) /\ enc_ok enc0 /\ Forall call_good cs /\ accepted s0 cs /\
    guesses_ok s0 cs /\ oracle_ok orc cs /\ 0 < chunk /\
    (Z.of_nat (length (w_out (snd (run_calls s0 cs)))) <= sys_maxsize)%Z /\
    ~ metas_oracle_ok orc s0 cs /\
    read_all orc chunk (w_out (snd (run_calls s0 cs))) <> (main_record enc0 ver :: expected_records s0 1 cs, TEnd).
Proof.
  set (j := JObj [(ascii_text (B "k"), JInt 1)]).
  set (d := match json_dump j with Ok d => d | Err _ => [] end).
  exists WNone, (WStr (ascii_text (B "1.0"))), (fst (writer_init WNone (WStr (ascii_text (B "1.0"))))),
         [WriteMeta (WDict j) WNone None], [(oracle_key_text (ascii_text d ++ [10%N]), LoadsOk j)], 96.
  split; [vm_compute; reflexivity|]. split; [left; reflexivity|].
  split; [constructor; [split; [left; reflexivity|eexists; reflexivity]|constructor]|].
  split; [unfold accepted; vm_compute; repeat constructor|].
  split; [split; [vm_compute; reflexivity|exact I]|].
  split; [constructor; [|constructor]; intros d0 Hd0; vm_compute in Hd0; injection Hd0 as <-; vm_compute; reflexivity|].
  split; [lia|]. split; [vm_compute; discriminate|].
  split; [intros [[H|H] _]; [vm_compute in H; discriminate H|]|].
  { specialize (H d eq_refl). vm_compute in H. discriminate H. }
  vm_compute. discriminate.
Qed.

(* ... and with an oracle that answers for the bytes the same program round-trips: all hypotheses of C01_round_trip
   hold and the reader returns the dict (the new path of the fixed writer is covered, not excluded) *)
Example C01_round_trip_unencoded_ex :
  exists enc0 ver s0 cs orc,
    writer_init enc0 ver = (s0, Ok tt) /\ enc_ok enc0 /\ Forall call_good cs /\ accepted s0 cs /\
    ~ metas_encoded s0 cs /\ metas_oracle_ok orc s0 cs /\ guesses_ok s0 cs /\ oracle_ok orc cs /\
    (Z.of_nat (length (w_out (snd (run_calls s0 cs)))) <= sys_maxsize)%Z /\
    w_out (snd (run_calls s0 cs)) =
      B "#diffx: version=1.0" ++ [x0a] ++ B "#.meta: format=json, length=15" ++ [x0a] ++
      B "{" ++ [x0a] ++ B "    ""k"": 1" ++ [x0a] ++ B "}" ++ [x0a] /\
    map r_payload (fst (read_all orc 96 (w_out (snd (run_calls s0 cs))))) = [PNone; PMeta (JObj [(ascii_text (B "k"), JInt 1)])] /\
    read_all orc 96 (w_out (snd (run_calls s0 cs))) = (main_record enc0 ver :: expected_records s0 1 cs, TEnd).
Proof.
  set (j := JObj [(ascii_text (B "k"), JInt 1)]).
  set (d := match json_dump j with Ok d => d | Err _ => [] end).
  set (orc := [(oracle_key_text (ascii_text d ++ [10%N]), LoadsOk j); (oracle_key_bytes (d ++ [x0a]), LoadsOk j)]).
  set (s0 := fst (writer_init WNone (WStr (ascii_text (B "1.0"))))).
  set (cs := [WriteMeta (WDict j) WNone None]).
  assert (Hi : writer_init WNone (WStr (ascii_text (B "1.0"))) = (s0, Ok tt)) by (vm_compute; reflexivity).
  assert (Hg : Forall call_good cs) by (constructor; [split; [left; reflexivity|eexists; reflexivity]|constructor]).
  assert (Ha : accepted s0 cs) by (unfold accepted; vm_compute; repeat constructor).
  assert (Hmo : metas_oracle_ok orc s0 cs).
  { split; [|exact I]. right. intros d0 Hd0. vm_compute in Hd0. injection Hd0 as <-. vm_compute. reflexivity. }
  assert (Hgs : guesses_ok s0 cs) by (split; [vm_compute; reflexivity|exact I]).
  assert (Ho : oracle_ok orc cs).
  { constructor; [|constructor]. intros d0 Hd0. vm_compute in Hd0. injection Hd0 as <-. vm_compute. reflexivity. }
  assert (Hsz : (Z.of_nat (length (w_out (snd (run_calls s0 cs)))) <= sys_maxsize)%Z) by (vm_compute; discriminate).
  exists WNone, (WStr (ascii_text (B "1.0"))), s0, cs, orc.
  split; [exact Hi|]. split; [left; reflexivity|]. split; [exact Hg|]. split; [exact Ha|].
  split; [intros [H _]; vm_compute in H; discriminate H|].
  split; [exact Hmo|]. split; [exact Hgs|]. split; [exact Ho|]. split; [exact Hsz|].
  split; [vm_compute; reflexivity|]. split; [vm_compute; reflexivity|].
  apply (C01_round_trip WNone _ s0 cs orc 96 Hi (or_introl eq_refl) Hg Ha Hmo Hgs Ho); [lia|exact Hsz].
Qed.
